"""C38: the thread-safety assertions of the shared analysis are redundant, and the one type whose assertion is
not redundant (SemanticModel) never crosses a thread boundary.

R38a  every `unsafe impl Send/Sync for T` in the workspace: each non-PhantomData field type of T implements the
      asserted trait according to the compiler's own trait solver (fact emitted by the driver), unless T is in
      the per-thread table below (then R38b applies).
R38a' the shared roots (EmmyLuaAnalysis, and every T inside Arc<..>/RwLock<..>/Mutex<..> fields of the server
      context) have Send+Sync components.
R38b  no value whose type mentions a per-thread type is captured by a closure/future handed to a spawn API, and
      none is live across an await point of any coroutine (its future would be Send only by the unchecked impl).
"""
from report import RuleBroken

SEND = "core::marker::Send"
SYNC = "core::marker::Sync"

# types whose unsafe assertion is NOT redundant by design; they must stay on one thread (R38b)
PER_THREAD = {
    "emmylua_code_analysis::semantic::SemanticModel":
        "per-query object holding RefCell<LuaInferCache> (Rc inside) and a rowan cursor; created and dropped "
        "inside one synchronous handler section",
}

SPAWN_APIS = ("tokio::task::spawn::spawn", "tokio::spawn", "tokio::task::blocking::spawn_blocking",
              "tokio::task::spawn_blocking", "std::thread::spawn", "std::thread::Builder::spawn",
              "tokio::runtime::Runtime::spawn", "tokio::runtime::Handle::spawn", "tokio::runtime::handle::Handle::spawn",
              "tokio::runtime::runtime::Runtime::spawn", "tokio::runtime::Runtime::spawn_blocking",
              "tokio::task::join_set::JoinSet<T>::spawn", "std::thread::scope", "std::thread::Scope<'scope, 'env>::spawn",
              "std::thread::scoped::Scope<'scope, 'env>::spawn")


def mentions(tstr, names):
    return any(n + "<" in tstr or tstr.endswith(n) or n + ">" in tstr or n + "," in tstr or n + " " in tstr
               for n in names)


def per_thread_closure(F):
    """ADTs that (transitively) contain a per-thread type in a field"""
    names = set(PER_THREAD)
    changed = True
    while changed:
        changed = False
        for path, adt in F.adts.items():
            if path in names:
                continue
            types = adt["_types"]
            for v in adt["variants"]:
                for f in v["fields"]:
                    if mentions(types[f["ty"]][0], names):
                        names.add(path)
                        changed = True
                        break
                if path in names:
                    break
    return names


def storage_live_at_yields(b):
    """for each yield block: set of locals that are storage-live there (may analysis over StorageLive/Dead).
    Arguments and locals without storage markers count as always live."""
    n = len(b.blocks)
    marked = set()
    for blk in b.blocks:
        for st in blk[1]:
            if st[0] in ("sl", "sd"):
                marked.add(st[1])
    succ = b.succ_map()
    live_in = [None] * n
    live_in[0] = frozenset()
    work = [0]
    while work:
        i = work.pop()
        cur = set(live_in[i])
        for st in b.blocks[i][1]:
            if st[0] == "sl":
                cur.add(st[1])
            elif st[0] == "sd":
                cur.discard(st[1])
        out = frozenset(cur)
        for s in succ[i]:
            if live_in[s] is None:
                live_in[s] = out
                work.append(s)
            elif not out <= live_in[s]:
                live_in[s] = live_in[s] | out
                work.append(s)
    res = {}
    for i, blk in enumerate(b.blocks):
        if blk[2][0] == "yield" and live_in[i] is not None:
            cur = set(live_in[i])
            for st in blk[1]:
                if st[0] == "sl":
                    cur.add(st[1])
                elif st[0] == "sd":
                    cur.discard(st[1])
            res[i] = cur
    return res, marked


def run(chk, F, tier):
    chk.rule("R38a", "every unsafe impl Send/Sync: each non-PhantomData field type implements the trait by the "
                     "trait solver (redundant assertion), or the type is in the per-thread table")
    chk.rule("R38a'", "components of the shared analysis roots are Send and Sync on their own")
    chk.rule("R38b", "per-thread types are never captured by a spawned closure/future nor live across an await")
    chk.assume("thread safety of dependencies (rowan, hashbrown, internment, tokio) is as their own impls state")
    chk.assume("decides absence of unchecked thread-safety assertions on shared state; equality of concurrent and "
               "sequential results is not decided")
    n_unsafe = 0
    for im in F.impls:
        if not im["unsafe"] or im["trait"] not in (SEND, SYNC):
            continue
        n_unsafe += 1
        t = im["_types"][im["self"]]
        path = t[3]
        trait = "send" if im["trait"] == SEND else "sync"
        adt = F.adts.get(path)
        loc = "%s:%s" % (im["file"], im["line"])
        if path in PER_THREAD:
            chk.ok("R38a", "%s:%s" % (path, trait), {"rule": "R38a", "type": path, "trait": trait,
                                                     "verdict": "per-thread type, see R38b", "reason": PER_THREAD[path]})
            continue
        if adt is None:
            chk.violation("R38a", "%s:%s" % (path, trait), "unsafe impl %s for a type without ADT facts" % trait, loc)
            continue
        types = adt["_types"]
        for v in adt["variants"]:
            for f in v["fields"]:
                fty = types[f["ty"]]
                key = "%s.%s:%s" % (path.split("::")[-1], f["name"], trait)
                if fty[3] == "core::marker::PhantomData":
                    chk.ok("R38a", key, {"rule": "R38a", "field": key, "verdict": "PhantomData holds no data"})
                    continue
                chk.check(f[trait] is True, "R38a", key,
                          "`unsafe impl %s for %s` is not redundant: field `%s: %s` does not implement %s by the "
                          "compiler's own rules, so the assertion hides a non-thread-safe component"
                          % (trait.capitalize(), path, f["name"], fty[0], trait.capitalize()), loc,
                          witness={"type": path, "field": f["name"], "field_type": fty[0]},
                          sample={"rule": "R38a", "field": key, "field_type": fty[0], "verdict": "implements trait"})
    chk.floor("unsafe Send/Sync impls", n_unsafe, 6)

    # R38a': shared roots
    roots = {"emmylua_code_analysis::EmmyLuaAnalysis"}
    ctx = [a for p, a in F.adts.items() if p.startswith("emmylua_ls::context::") and a["kind"] == "struct"]
    for a in ctx:
        types = a["_types"]
        for f in a["variants"][0]["fields"]:
            # generic args of Arc/RwLock/Mutex, recursively
            st = [f["ty"]]
            seen = set()
            while st:
                ti = st.pop()
                if ti in seen:
                    continue
                seen.add(ti)
                t = types[ti]
                if t[2] == "adt" and t[3] in ("alloc::sync::Arc", "tokio::sync::rwlock::RwLock", "tokio::sync::mutex::Mutex",
                                               "std::sync::Mutex", "std::sync::RwLock", "std::sync::poison::mutex::Mutex",
                                               "std::sync::poison::rwlock::RwLock"):
                    st.extend(t[4])
                elif t[2] == "adt" and t[3] in F.adts and ti != f["ty"]:
                    roots.add(t[3])
    nroot = 0
    for r in sorted(roots):
        adt = F.adts.get(r)
        if adt is None:
            continue
        types = adt["_types"]
        for v in adt["variants"]:
            for f in v["fields"]:
                nroot += 1
                fty = types[f["ty"]]
                key = "%s.%s" % (r.split("::")[-1], f["name"])
                chk.check(f["send"] is True and f["sync"] is True, "R38a'", key,
                          "component `%s: %s` of shared root %s is not Send+Sync by the compiler's own rules"
                          % (f["name"], fty[0], r), "%s:%s" % (adt["file"], adt["line"]),
                          witness={"send": f["send"], "sync": f["sync"]},
                          sample={"rule": "R38a'", "field": key, "field_type": fty[0], "verdict": "Send+Sync"})
    chk.floor("shared root components", nroot, 10)
    chk.unit("shared roots", len(roots))

    # R38c: no shared mutable state behind &self in the analysis the readers share
    chk.rule("R38c", "no type contained in the shared analysis (EmmyLuaAnalysis, transitively through fields and generic arguments) "
                     "has a field with interior mutability (Mutex/RwLock/Atomic*/RefCell/Cell/Once*/Lazy*/UnsafeCell), unless audited: "
                     "concurrent `&self` queries can only influence each other through such a field")
    INTERIOR = ("Mutex<", "RwLock<", "RefCell<", "::Cell<", "::atomic::Atomic", "OnceCell<", "OnceLock<", "LazyLock<", "LazyCell<",
                "UnsafeCell<", "::Once>", "::Once,", "Condvar", "mpsc::", "DashMap<", "AtomicRefCell<")
    INTERIOR_AUDITED = {
        # "Type.field": "reason"  (none on the current tree)
    }
    seen_adts = set()
    todo = ["emmylua_code_analysis::EmmyLuaAnalysis"]
    nfields = 0
    while todo:
        path = todo.pop()
        if path in seen_adts or path in PER_THREAD:
            continue
        seen_adts.add(path)
        adt = F.adts.get(path)
        if adt is None:
            continue
        types = adt["_types"]
        for v in adt["variants"]:
            for f in v["fields"]:
                nfields += 1
                fty = types[f["ty"]]
                key = "%s.%s" % (path.split("::")[-1], f["name"])
                hit = [x for x in INTERIOR if x in fty[0]]
                if hit and key not in INTERIOR_AUDITED:
                    chk.violation("R38c", key,
                                  "field `%s: %s` of %s (contained in the shared analysis) has interior mutability (%s): a `&self` query "
                                  "can write it, so concurrent queries can change each other's results" % (f["name"], fty[0], path, hit[0].strip("<:,>")),
                                  "%s:%s" % (adt["file"], adt["line"]), witness={"field_type": fty[0]})
                else:
                    chk.ok("R38c", key, {"rule": "R38c", "field": key, "verdict": INTERIOR_AUDITED.get(key, "no interior mutability in the field's type")})
                # walk generic arguments and nested ADTs
                st = [f["ty"]]
                seen_t = set()
                while st:
                    ti = st.pop()
                    if ti in seen_t:
                        continue
                    seen_t.add(ti)
                    t = types[ti]
                    if t[2] == "adt" and t[3] in F.adts:
                        todo.append(t[3])
                    st.extend(t[4] or [])
    STATIC_AUDITED = {
        "emmylua_code_analysis::_RUST_I18N_BACKEND": "rust_i18n macro: once_cell Lazy, written once on first use, read-only afterwards",
        "emmylua_parser::_RUST_I18N_BACKEND": "rust_i18n macro: once_cell Lazy, written once on first use, read-only afterwards",
        "emmylua_parser_desc::_RUST_I18N_BACKEND": "rust_i18n macro: once_cell Lazy, written once on first use, read-only afterwards",
    }
    nstat = 0
    for sp, sd in sorted(F.statics.items()):
        if sd["crate"] not in ("emmylua_code_analysis", "emmylua_parser", "emmylua_parser_desc"):
            continue
        nstat += 1
        tstr = sd["_types"][sd["ty"]][0]
        shared_mut = sd["mut"] or not sd["freeze"] or sd["tls"]
        chk.check(not shared_mut or sp in STATIC_AUDITED, "R38c", "static:" + sp,
                  "static `%s: %s` is %s: state shared by every query outside the analysis value, not in the audited table"
                  % (sp, tstr, "`static mut`" if sd["mut"] else ("thread-local" if sd["tls"] else "interior-mutable")),
                  "%s:%s" % (sd["file"], sd["line"]),
                  sample={"rule": "R38c", "static": sp, "verdict": STATIC_AUDITED.get(sp, "immutable static")})
    chk.floor("statics of the analysis crates", nstat, 10)
    chk.floor("fields of types contained in the shared analysis", nfields, 150)
    chk.unit("types contained in the shared analysis", len(seen_adts))

    # R38b
    names = per_thread_closure(F)
    chk.unit("per-thread type closure", len(names))
    nspawn = 0
    ncor = 0
    for b in F.bodies.values():
        if b.kind in ("const", "static", "promoted"):
            continue
        for bb, c in b.calls():
            callee = c.get("r") or c.get("f") or ""
            if not (callee in SPAWN_APIS or callee.endswith("::spawn") or callee.endswith("::spawn_blocking")
                    or callee.endswith("::spawn_local")):
                continue
            if not (callee.startswith("tokio::") or callee.startswith("std::thread")):
                continue
            nspawn += 1
            bad = []
            for gi in c.get("ga", []):
                ts = b.ty_str(gi)
                if mentions(ts, names):
                    bad.append(ts)
            # captured values: operands of the closure/coroutine aggregate that is passed
            for a in c["a"]:
                if a[0] in ("c", "m") and len(a[1]) == 1:
                    for blk in b.blocks:
                        for st in blk[1]:
                            if st[0] == "a" and st[1] == [a[1][0]] and st[2][0] == "agg":
                                for op in st[2][4]:
                                    if op[0] in ("c", "m"):
                                        ts = b.local_ty_str(op[1][0])
                                        if mentions(ts, names):
                                            bad.append(ts)
            key = "%s@%s" % (b.id, callee.split("::")[-1])
            chk.check(not bad, "R38b", key,
                      "a value of per-thread type is handed to %s: %s" % (callee, bad[:2]), b.loc(c["l"]),
                      witness={"types": bad})
        if b.get("coroutine"):
            ncor += 1
            lv, marked = storage_live_at_yields(b)
            bad = {}
            for ybb, live in lv.items():
                for l in live:
                    ts = b.local_ty_str(l)
                    if mentions(ts, names):
                        bad.setdefault(l, ybb)
            # unmarked locals (no storage statements) other than the coroutine state itself
            for l in range(b.argc + 1, len(b.locals)):
                if l not in marked and lv and mentions(b.local_ty_str(l), names):
                    bad.setdefault(l, -1)
            chk.check(not bad, "R38b", "await:%s" % b.id,
                      "a per-thread value (%s) is live across an await in %s; the future is Send only through the "
                      "unchecked impl" % (", ".join("_%d:%s" % (l, b.local_ty_str(l)[:60]) for l in list(bad)[:2]), b.id),
                      b.loc(), witness={"locals": {str(k): v for k, v in bad.items()}})
    chk.floor("spawn call sites", nspawn, 10)
    chk.floor("coroutine bodies", ncor, 100)
    chk.explanation = ("Trait-solver facts for every field of every unsafely asserted type and of the shared roots; "
                       "capture and await-liveness scan for the one per-thread type.")
