"""C26 (legend clause): the three hand-maintained semantic-token tables agree.

R26a  for every variant k of SemanticTokenTypeKind: all_types()[to_u32(k)] is the same constant as
      to_semantic_token_type(k); to_u32 is injective and < len(all_types()).
R26b  for every element i of all_modifiers()'s source array: its bit value is 1<<i, to_modifier has an arm for
      it, and the arms are injective.
R26c  the SemanticTokensLegend registered in the capabilities is built from exactly all_types()/all_modifiers().
R26d  every `typ`/modifier value handed to SemanticBuilder::push* comes from to_u32 (not a literal).
"""
import consteval
import dataflow
from report import RuleBroken

P = "emmylua_ls::handlers::semantic_token::semantic_token_builder::"
KIND = P + "SemanticTokenTypeKind"
MOD = P + "SemanticTokenModifierKind"


def array_elems(b):
    """ordered element operands of the (single) array aggregate in the body, resolved to constants"""
    env = {}
    arr = None
    for blk in b.blocks:
        if blk[0]:
            continue
        for st in blk[1]:
            if st[0] != "a":
                continue
            if st[2][0] == "agg" and st[2][1] == "array":
                arr = [consteval.operand_value(o, env) for o in st[2][4]]
            elif len(st[1]) == 1:
                try:
                    env[st[1][0]] = consteval.eval_rvalue(st[2], env)
                except consteval.NotConst:
                    pass
    return arr


def run(chk, F, tier):
    chk.rule("R26a", "all_types()[to_u32(k)] == to_semantic_token_type(k) for every SemanticTokenTypeKind k; to_u32 injective, in range")
    chk.rule("R26b", "all_modifiers()[i] has bit value 1<<i and a to_modifier arm; arms injective")
    chk.rule("R26c", "the registered SemanticTokensLegend is built from all_types()/all_modifiers()")
    chk.assume("decides agreement of the legend tables only; token ordering/overlap and the other LSP structures are data dependent")
    adt = F.adts.get(KIND)
    if adt is None:
        raise RuleBroken("SemanticTokenTypeKind not found")
    variants = [v["name"] for v in adt["variants"]]
    chk.floor("token type kinds", len(variants), 24)
    for need in ("to_u32", "to_semantic_token_type", "all_types"):
        if KIND + "::" + need not in F.bodies:
            raise RuleBroken("%s::%s not found" % (KIND, need))
    _, t_u32, _ = consteval.match_table(F.bodies[KIND + "::to_u32"])
    _, t_ty, _ = consteval.match_table(F.bodies[KIND + "::to_semantic_token_type"])
    types = array_elems(F.bodies[KIND + "::all_types"])
    if types is None:
        raise RuleBroken("all_types() is no longer a literal vec![..]")
    loc = F.bodies[KIND + "::to_u32"].loc()
    seen = {}
    for d, name in enumerate(variants):
        ix = t_u32.get(d)
        ty = t_ty.get(d)
        key = "type:%s" % name
        if not isinstance(ix, int) or isinstance(ix, bool):
            chk.violation("R26a", key, "to_u32 has no constant arm for %s (%r)" % (name, ix), loc)
            continue
        if ix in seen:
            chk.violation("R26a", key, "to_u32 maps both %s and %s to %d" % (seen[ix], name, ix), loc)
            continue
        seen[ix] = name
        if ix >= len(types):
            chk.violation("R26a", key, "to_u32(%s)=%d is outside the legend (len %d)" % (name, ix, len(types)), loc)
            continue
        chk.check(types[ix] == ty and ty is not None, "R26a", key,
                  "legend mismatch for %s: all_types()[%d] = %s but to_semantic_token_type = %s"
                  % (name, ix, types[ix], ty), loc, witness={"index": ix, "legend": str(types[ix]), "mapped": str(ty)},
                  sample={"rule": "R26a", "kind": name, "index": ix, "legend_entry": str(types[ix]), "verdict": "agree"})
    chk.check(len(set(map(str, types))) == len(types), "R26a", "types:distinct", "duplicate entries in all_types()", loc)

    # modifiers
    mb = F.bodies.get(MOD + "::all_modifiers")
    tm = F.bodies.get(MOD + "::to_modifier")
    if mb is None or tm is None:
        raise RuleBroken("modifier tables not found")
    elems = array_elems(mb)
    if elems is None:
        raise RuleBroken("all_modifiers() is no longer built from a literal array")
    _, t_mod, _ = consteval.match_table(tm)
    chk.floor("modifier kinds", len(elems), 10)
    mapped = {}
    for i, e in enumerate(elems):
        v = consteval.resolve_defs(F, e)
        name = e[1].split("::")[-1] if isinstance(e, tuple) and e[0] == "def" else str(e)
        key = "modifier:%s" % name
        bits = v[3][0] if isinstance(v, tuple) and v[0] == "adt" and v[3] else None
        if not isinstance(bits, int):
            chk.violation("R26b", key, "modifier constant %s has no evaluable bit value (%r)" % (name, v), mb.loc())
            continue
        ok = bits == (1 << i)
        arm = t_mod.get(bits)
        ok2 = isinstance(arm, tuple) and arm[0] == "def"
        ok3 = ok2 and arm[1] not in mapped
        if ok2:
            mapped.setdefault(arm[1], name)
        chk.check(ok and ok2 and ok3, "R26b", key,
                  "modifier %s: bit value %s at legend position %d (expected %d), to_modifier arm %s%s"
                  % (name, bits, i, 1 << i, arm, "" if ok3 or not ok2 else " (duplicate)"), mb.loc(),
                  witness={"position": i, "bits": bits, "arm": str(arm)},
                  sample={"rule": "R26b", "modifier": name, "position": i, "bits": bits, "lsp": str(arm), "verdict": "agree"})
    # the array must be what is mapped through to_modifier and collected
    callees = {(c.get("r") or c.get("f")) for _, c in mb.calls()}
    closures = [x for x in F.bodies if x.startswith(MOD + "::all_modifiers::{closure")]
    uses_tm = any((c.get("r") or c.get("f")) == MOD + "::to_modifier" for x in closures for _, c in F.bodies[x].calls())
    chk.check(uses_tm, "R26b", "all_modifiers:maps-to_modifier", "all_modifiers no longer maps its array through to_modifier", mb.loc())

    # R26c legend registration
    n = 0
    for b in F.bodies.values():
        if b.crate != "emmylua_ls":
            continue
        for bi, blk in enumerate(b.blocks):
            for st in blk[1]:
                if st[0] == "a" and st[2][0] == "agg" and st[2][2] and st[2][2].endswith("::SemanticTokensLegend"):
                    n += 1
                    adtl = st[2]
                    # field order of the aggregate = declaration order: token_types, token_modifiers
                    srcs = []
                    for op in adtl[4]:
                        l = dataflow.operand_local(op)
                        rs = dataflow.roots(b, l) if l is not None else set()
                        cal = set()
                        for r in rs:
                            if r[0] == "call":
                                c = b.blocks[r[1]][2][1]
                                cal.add(c.get("r") or c.get("f"))
                        srcs.append(cal)
                    want = [{KIND + "::all_types"}, {MOD + "::all_modifiers"}]
                    chk.check(sorted(map(sorted, srcs)) == sorted(map(sorted, want)), "R26c", "legend@%s" % b.id,
                              "SemanticTokensLegend is not built from all_types()/all_modifiers(): %s" % srcs,
                              b.loc(st[3]), witness={"sources": [sorted(s) for s in srcs]},
                              sample={"rule": "R26c", "site": b.id, "sources": [sorted(s) for s in srcs], "verdict": "agree"})
    chk.floor("legend registrations", n, 1)
    chk.explanation = ("Evaluates the match tables and vec! literals from MIR and compares them entry by entry; "
                       "exhaustive over all 24 token kinds and 10 modifiers.")

    # ---- R26e: token lengths are counted in the same unit as token columns ---------------------------------------------
    import dataflow as _d
    chk.rule("R26e", "in SemanticBuilder::push_data every `col`/`length` of a token record comes from LuaDocument::get_line_col columns "
                     "(or the multi-line filler constants), never from a byte length")
    SB = P + "SemanticBuilder"
    pd = F.bodies.get(SB + "::push_data")
    if pd is None:
        raise RuleBroken("SemanticBuilder::push_data not found")

    def value_sources(b, op):
        out, seen = set(), set()
        l = _d.operand_local(op)
        if l is None:
            return {"const"}
        todo = [l]
        while todo:
            x = todo.pop()
            if x in seen:
                continue
            seen.add(x)
            for r in _d.roots(b, x):
                if r[0] == "call":
                    c = b.blocks[r[1]][2][1]
                    n = c.get("r") or c.get("f") or ""
                    short = n.split("::")[-1]
                    if short in ("saturating_sub", "sub", "min", "max", "into", "from", "branch") and c["a"]:
                        for a in c["a"]:
                            la = _d.operand_local(a)
                            if la is not None:
                                todo.append(la)
                        continue
                    out.add(short)
                elif r[0] == "place":
                    todo.append(r[1])
                elif r[0] == "other":
                    rv = b.blocks[r[1]][1][r[2]][2]
                    if rv[0] in ("cast", "bin"):
                        for y in rv[1:]:
                            if isinstance(y, list) and y and y[0] in ("c", "m"):
                                todo.append(y[1][0])
                    else:
                        out.add("rvalue:" + str(rv[0]))
                elif r[0] == "const":
                    out.add("const")
                elif r[0] == "arg":
                    out.add("arg#%d" % r[1])
                else:
                    out.add(str(r[0]))
        return out

    nrec = 0
    for blk in pd.blocks:
        for st in blk[1]:
            if st[0] == "a" and st[2][0] == "agg" and st[2][1] == "adt" and (st[2][2] or "").endswith("BasicSemanticTokenData"):
                nrec += 1
                ops = st[2][4]
                # fields: line, col, length, typ, modifiers
                for fi, fname in ((1, "col"), (2, "length")):
                    src = value_sources(pd, ops[fi])
                    chk.check(src <= {"get_line_col", "const"}, "R26e", "push_data:record#%d.%s" % (nrec, fname),
                              "push_data computes a token's %s from %s: columns are character counts (get_line_col), so a byte length makes "
                              "every token containing a non-ASCII character too long -- it overlaps its successors or leaves the line"
                              % (fname, sorted(src)), pd.loc(st[3] if len(st) > 3 else None), witness={"sources": sorted(src)},
                              sample={"rule": "R26e", "record": nrec, "field": fname, "verdict": "from get_line_col / constant"})
    chk.floor("token records built by push_data", nrec, 4)

    # ---- R26f: emitted tokens do not overlap --------------------------------------------------------------------------------
    chk.rule("R26f", "SemanticBuilder enforces non-overlap: build() compares a token's column with the previous token's end (col + length), "
                     "or push_data rejects ranges that overlap a stored range")
    bd = F.bodies.get(SB + "::build")
    if bd is None:
        raise RuleBroken("SemanticBuilder::build not found")
    # comparisons in build (and its closures) whose operands derive from the `length` field
    reads_len_in_cmp = False
    bodies = [bd] + [x for k, x in F.bodies.items() if k.startswith(bd.id + "::{closure")]
    for b in bodies:
        len_locals = set()
        for blk in b.blocks:
            for st in blk[1]:
                if st[0] == "a" and len(st[1]) == 1:
                    rv = st[2]
                    srcp = rv[1][1] if rv[0] == "use" and rv[1][0] in ("c", "m") else (rv[2] if rv[0] == "ref" else None)
                    if srcp and any(isinstance(e, list) and e[0] == "f" and e[2] == "length" for e in srcp[1:]):
                        len_locals.add(st[1][0])
        changed = True
        while changed:
            changed = False
            for blk in b.blocks:
                for st in blk[1]:
                    if st[0] == "a" and len(st[1]) == 1 and st[1][0] not in len_locals:
                        for y in st[2][1:]:
                            if isinstance(y, list) and y and y[0] in ("c", "m") and y[1][0] in len_locals:
                                len_locals.add(st[1][0])
                                changed = True
                t = blk[2]
                if t[0] == "call" and len(t[1]["d"]) == 1 and t[1]["d"][0] not in len_locals and \
                        any(a[0] in ("c", "m") and a[1][0] in len_locals for a in t[1]["a"]) and \
                        (t[1].get("r") or t[1].get("f") or "").split("::")[-1] in ("add", "saturating_add", "checked_add", "wrapping_add"):
                    len_locals.add(t[1]["d"][0])
                    changed = True
        for blk in b.blocks:
            for st in blk[1]:
                if st[0] == "a" and st[2][0] == "bin" and st[2][1] in ("Lt", "Le", "Gt", "Ge"):
                    if any(o[0] in ("c", "m") and o[1][0] in len_locals for o in st[2][2:4]):
                        reads_len_in_cmp = True
            t = blk[2]
            if t[0] == "call" and (t[1].get("r") or t[1].get("f") or "").split("::")[-1] in ("lt", "le", "gt", "ge", "cmp", "partial_cmp") and \
                    any(a[0] in ("c", "m") and a[1][0] in len_locals for a in t[1]["a"]):
                reads_len_in_cmp = True
    range_overlap_test = any((c.get("r") or c.get("f") or "").endswith(("TextRange::intersect", "TextRange::contains_range", "TextRange::contains"))
                             for _, c in pd.calls())
    chk.check(reads_len_in_cmp or range_overlap_test, "R26f", "non-overlap",
              "SemanticBuilder removes duplicates by start offset only: build() never compares a token's column with the end (col + length) of "
              "the token before it and push_data never tests a range against stored ranges, so a token nested in or straddling an earlier "
              "one is emitted and the decoded stream overlaps", bd.loc(),
              witness={"failing_inputs": ["local a = {}\\n---@cast a.b.c string  (token a.b.c plus tokens for b and c)",
                                          "local s = \"local x = 1\" ---@language lua  (whole string token plus injected tokens)"]},
              sample={"rule": "R26f", "verdict": "overlap filtered"})
