"""C01: event-balance, level-exactness, append-only and sentinel clauses of lossless parsing.

R01a-prim   every marker API outcome keeps d_level == d_open (mark, push_node_end, complete, undo, precede): this makes the
            two error-repair sites exact (they close `current_level - level` nodes after an Err).
R01a-ok     every grammar function (first parameter &mut LuaParser / &mut LuaDocParser), on every feasible path to a
            non-error return, leaves the number of open nodes unchanged (+1 if it returns an open Marker, -1 per Marker it
            consumes); computed as a least fixpoint of outcome sets over the call graph.
R01a-swallow no function continues on its Ok path after a callee returned Err with nodes still open (only the repair sites
            and `?` propagation may see such an Err).
R01a-neg    no path closes more nodes than it opened (relative to entry).
R01b        the event vector is append-only: no Vec::{remove,insert,truncate,clear,pop,swap,drain,retain,split_off} on Vec<MarkEvent>.
R01c        end of input is not an in-band character: the predicate that ends the tokenizer loops must not be a pure
            comparison of the current character with a constant that is a legal input character.
"""
import grammar
import markers
from report import RuleBroken

EVENT_MUTATORS = ("::remove", "::insert", "::truncate", "::clear", "::pop", "::swap", "::drain", "::retain",
                  "::split_off", "::swap_remove", "::dedup", "::reverse", "::sort")


def name(c):
    return c.get("r") or c.get("f") or ""


def expected_ok(b):
    base = 1 if grammar.returns_open_marker(b) else 0
    for i in range(2, b.argc + 1):
        s = b.local_ty_str(i)
        if s.endswith("marker::Marker"):
            base -= 1
    return base


def run(chk, F, tier):
    chk.rule("R01a-prim", "marker API keeps d_level == d_open on every path")
    chk.rule("R01a-ok", "grammar functions are balanced on every non-error path (least fixpoint of outcome sets)")
    chk.rule("R01a-swallow", "no Ok continuation after a callee's Err that left nodes open")
    chk.rule("R01b", "event vector is append-only")
    chk.rule("R01c", "EOF is not an in-band character")
    chk.assume("token ranges tiling the text, trivia forwarding and doc-lexer re-lexing ranges are index arithmetic and not decided")
    chk.assume("paths are enumerated with Result-variant knowledge only; other infeasible paths are over-approximated")
    G = grammar.GrammarAnalysis(F)
    chk.floor("grammar functions", len(G.fns), 150)
    chk.unit("fixpoint rounds", G.rounds)
    # R01a-prim
    for api, outs in sorted(G.M.api.items()):
        for (o, l) in sorted(outs):
            chk.check(o == l, "R01a-prim", "%s:(%d,%d)" % (api, o, l),
                      "%s has an outcome that changes the open-node count by %d but mark_level by %d: after an Err the repair "
                      "sites (parse_stats, parse_tag) push `current_level - level` NodeEnds and then close too %s nodes, which "
                      "drops or re-parents every token after that point" % (api, o, l, "many" if l > o else "few"),
                      F.bodies[markers.P + api].loc(), witness={"outcomes": sorted(outs)},
                      sample={"rule": "R01a-prim", "api": api, "outcome": [o, l], "verdict": "level exact"})
    chk.floor("marker API functions", len(G.M.api), 8)
    chk.check(len(G.repair) >= 2, "R01a-prim", "repair-sites", "the error-repair sites (get_mark_level + push_node_end) were not found", None)
    # R01a-ok / swallow / neg
    for fid, b in sorted(G.fns.items()):
        if fid in G.repair:
            continue
        s = G.summ[fid] or set()
        exp = expected_ok(b)
        oks = {o for v, o in s if v == 0}
        short = fid.replace("emmylua_parser::", "")
        chk.check(fid not in G.truncated, "R01a-ok", "analysed:" + short, "%s is too complex to analyse (state bound hit)" % short, b.loc())
        if not s:
            chk.ok("R01a-ok", "balanced:" + short, {"rule": "R01a-ok", "fn": short, "verdict": "no completing path (diverges or unreachable)"})
            continue
        chk.check(oks <= {exp}, "R01a-ok", "balanced:" + short,
                  "%s can return normally with %s nodes left open (expected %d): a NodeStart without NodeEnd (or a surplus NodeEnd) "
                  "makes the tree builder drop or mis-nest the rest of the file" % (short, sorted(oks - {exp}), exp), b.loc(),
                  witness={"outcomes": sorted(s)},
                  sample={"rule": "R01a-ok", "fn": short, "outcomes": sorted(s), "verdict": "balanced on every non-error path"})
        sw = G.swallow.get(fid) or []
        chk.check(not sw, "R01a-swallow", "swallow:" + short,
                  "%s continues normally after %s returned Err with nodes still open" % (short, [(x[0].split("::")[-1], x[1]) for x in sw[:3]]),
                  b.loc(sw[0][1] if sw else None))
        if fid in G.neg and exp >= 0:   # a function that consumes a caller's Marker legitimately goes below zero
            chk.violation("R01a-neg", "neg:" + short, "%s closes more nodes than it opened (at %s)" % (short, G.neg[fid]), b.loc(G.neg[fid][1]))
    # R01b
    n_ev = 0
    for b in F.bodies.values():
        if b.crate != "emmylua_parser":
            continue
        for bb, c in b.calls():
            n = name(c)
            if not n.startswith("alloc::vec::Vec"):
                continue
            tys = " ".join(b.ty_str(g) for g in c.get("ga", []))
            if "MarkEvent" not in tys:
                continue
            n_ev += 1
            bad = n.endswith(EVENT_MUTATORS)
            chk.check(not bad, "R01b", "%s@%s" % (n.split("::")[-1], b.id),
                      "%s calls %s on the marker event vector: Marker::{complete,undo,set_kind} and parent links index events by "
                      "position, which is only sound for an append-only vector" % (b.id, n), b.loc(c["l"]))
    chk.floor("Vec<MarkEvent> call sites", n_ev, 5)
    # R01d: the text of every green token is a slice of the source text
    chk.rule("R01d", "every token handed to the rowan builder carries a slice of the source text (never a constant or derived string)")
    gb = F.bodies.get("emmylua_parser::syntax::tree::lua_green_builder::LuaGreenNodeBuilder::build_rowan_green")
    if gb is None:
        raise RuleBroken("build_rowan_green not found")
    import dataflow
    text_params = [i for i in range(1, gb.argc + 1) if gb.local_ty_str(i) == "&str"]
    ntok = 0
    for bb, c in gb.calls():
        if "GreenNodeBuilder" in name(c) and name(c).endswith("::token") and len(c["a"]) >= 3:
            ntok += 1
            l = dataflow.operand_local(c["a"][2])
            rs = dataflow.roots(gb, l) if l is not None else set()
            ok = bool(rs)
            for r in rs:
                if r[0] != "call":
                    ok = False
                    continue
                cc = gb.blocks[r[1]][2][1]
                if not (cc.get("f") or "").endswith("ops::index::Index::index"):
                    ok = False
                    continue
                l0 = dataflow.operand_local(cc["a"][0])
                r0 = dataflow.roots(gb, l0) if l0 is not None else set()
                if not r0 or not all(x[0] == "arg" and x[1] in text_params for x in r0):
                    ok = False
            chk.check(ok, "R01d", "token-text-from-source",
                      "build_rowan_green hands rowan a token text that is not (only) a slice of the source text: the tree's text can "
                      "then differ from the input although all ranges look right", gb.loc(c["l"]),
                      witness={"roots": sorted(map(str, rs))},
                      sample={"rule": "R01d", "verdict": "token text = &text[start..end]"})
    chk.floor("green token sites", ntok, 1)
    # R01e: the lexers never discard consumed characters: Reader::reset_buff is never reachable after a bump/eat/lex call
    # without a token having been pushed for the consumed buffer in between
    chk.rule("R01e", "no reset of the lexer buffer after consuming characters unless a token was pushed for them")
    nres = 0
    for k, b in F.bodies.items():
        if not k.startswith("emmylua_parser::lexer") or b.kind not in ("fn", "closure"):
            continue
        R = {bb for bb, c in b.calls() if name(c).endswith("Reader::reset_buff")}
        if not R:
            continue
        nres += len(R)
        B = {bb for bb, c in b.calls() if name(c).endswith(("Reader::bump", "Reader::eat_while", "Reader::eat_when")) or "::lex" in name(c).split("<")[0]}
        PU = {bb for bb, c in b.calls() if name(c).startswith("alloc::vec::Vec") and name(c).endswith("::push")}
        succ = b.succ_map()
        bad = []
        import cfgutil
        for x in B:
            p = cfgutil.paths_avoiding(succ, x, R, PU)
            if p and len(p) > 1:
                bad.append(b.blocks[x][2][1]["l"])
        chk.check(not bad, "R01e", "reset-after-consume@" + k.replace("emmylua_parser::", ""),
                  "%s resets the reader buffer after consuming characters (lines %s) without pushing a token for them: those bytes "
                  "belong to no token and vanish from the tree" % (k.split("::")[-1], sorted(set(bad))[:4]), b.loc(),
                  sample={"rule": "R01e", "fn": k.split("::")[-1], "verdict": "buffer reset only before consuming"})
    # who may call reset_buff at all: only the lexers
    for k, b in F.bodies.items():
        if b.crate == "emmylua_parser" and not k.startswith(("emmylua_parser::lexer", "emmylua_parser::text::reader")):
            for bb, c in b.calls():
                if name(c).endswith("Reader::reset_buff"):
                    chk.violation("R01e", "reset-outside-lexer@" + k, "%s calls Reader::reset_buff outside the lexers" % k, b.loc(c["l"]))
    chk.floor("reset_buff call sites", nres, 2)
    # R01c
    ie = F.bodies.get("emmylua_parser::text::reader::Reader::is_eof")
    if ie is None:
        raise RuleBroken("Reader::is_eof not found")
    pure_char_cmp = False
    for blk in ie.blocks:
        for st in blk[1]:
            if st[0] == "a" and st[2][0] == "bin" and st[2][1] in ("Eq", "Ne"):
                ops = st[2][2:4]
                if any(o[0] == "k" and o[1] in ("char", "def") for o in ops) or any("char" in ie.ty_str(o[3]) for o in ops if o[0] == "k"):
                    pure_char_cmp = True
    uses_len = any(n_ in name(c) for _, c in ie.calls() for n_ in ("len", "is_empty", "as_str", "peek"))
    chk.check(not pure_char_cmp or uses_len, "R01c", "reader-eof-sentinel",
              "Reader::is_eof is a comparison of the current character with the constant EOF = '\\0', a legal input character: the "
              "tokenizer stops at the first NUL and everything after it is missing from the tree", ie.loc())
    # ---- R01f: every token the parser steps over as trivia is emitted by parse_trivia_tokens ------------------------------------------
    import cfgutil as _cfg
    chk.rule("R01f", "every switch over a token kind in LuaParser::parse_trivia_tokens that leads to an emission (EatToken event / comment group) "
                     "lists all the kinds of is_trivia_kind: a trivia kind that falls into the drop-everything-else arm disappears from the tree")
    PT = "emmylua_parser::parser::lua_parser::"
    itk = F.bodies.get(PT + "is_trivia_kind")
    ptt = F.bodies.get(PT + "LuaParser::parse_trivia_tokens")
    if itk is None or ptt is None:
        raise RuleBroken("is_trivia_kind / parse_trivia_tokens not found")
    trivia = set()
    for blk in itk.blocks:
        t = blk[2]
        if t[0] == "sw":
            trivia |= {v for v, _ in t[2] if isinstance(v, int)}
    chk.floor("trivia token kinds", len(trivia), 5)
    tk = F.adts.get("emmylua_parser::kind::lua_token_kind::LuaTokenKind")
    names = [v["name"] for v in tk["variants"]] if tk else []
    nm = lambda v: names[v] if 0 <= v < len(names) else str(v)
    succ = ptt.succ_map()
    emits = set()
    for bi, blk in enumerate(ptt.blocks):
        for st in blk[1]:
            if st[0] == "a" and st[2][0] == "agg" and st[2][1] == "adt" and (st[2][2] or "").endswith("MarkEvent") and st[2][3] == "EatToken":
                emits.add(bi)
        t = blk[2]
        if t[0] == "call" and ((t[1].get("r") or t[1].get("f") or "").endswith(("LuaParser::parse_comments",)) or
                               ((t[1].get("r") or t[1].get("f") or "").endswith("Vec::<T, A>::push") and t[1]["a"] and "LuaTokenData" in ptt.ty_str_op(t[1]["a"][0]))):
            emits.add(bi)
    nsw = 0
    for bi, blk in enumerate(ptt.blocks):
        t = blk[2]
        if blk[0] or t[0] != "sw" or t[1][0] not in ("c", "m"):
            continue
        # discriminant of a LuaTokenKind value?
        dl = t[1][1][0]
        is_kind = any(st[0] == "a" and st[1] == [dl] and st[2][0] == "disc" and
                      ("LuaTokenKind" in ptt.local_ty_str(st[2][1][0]) or
                       any(isinstance(e, list) and e[0] == "f" and e[2] == "kind" for e in st[2][1][1:])) for st in blk[1])
        if not is_kind:
            continue
        # only the token the enclosing `for i in start..next_index` loop is currently visiting (tokens[i] with i the loop variable);
        # scans over other tokens (the backwards look for an inline comment) decide nothing about emission of *this* token
        import dataflow as _dfl
        src_local = next(st[2][1][0] for st in blk[1] if st[0] == "a" and st[1] == [dl] and st[2][0] == "disc")
        loop_tok = False
        seen_l, todo_l = set(), [src_local]
        while todo_l:
            x = todo_l.pop()
            if x in seen_l:
                continue
            seen_l.add(x)
            for r in _dfl.roots(ptt, x):
                if r[0] == "call":
                    cc = ptt.blocks[r[1]][2][1]
                    if (cc.get("r") or cc.get("f") or "").endswith("::index") and len(cc["a"]) == 2:
                        il = _dfl.operand_local(cc["a"][1])
                        for r2 in (_dfl.roots(ptt, il) if il is not None else ()):
                            if r2[0] == "place" and r2[2] and isinstance(r2[2][0], (list, tuple)) and r2[2][0][0] == "d" and r2[2][0][1] == "Some":
                                loop_tok = True
                elif r[0] == "place":
                    # `for token in &self.tokens[a..b]`: the token is the payload of the slice iterator's next()
                    if r[2] and isinstance(r[2][0], (list, tuple)) and r[2][0][0] == "d" and r[2][0][1] == "Some" and \
                            any(cb2 for cb2, cc2 in ptt.calls() if cc2["d"] == [r[1]] and (cc2.get("r") or cc2.get("f") or "").endswith("::next")):
                        loop_tok = True
                    todo_l.append(r[1])
        if not loop_tok:
            continue
        listed = {v for v, _ in t[2] if isinstance(v, int)}
        # does a listed arm lead to an emission before the loop comes round?
        leads = any(any(e == tb or e in _cfg.reachable({k: [y for y in v if y != bi] for k, v in enumerate(succ)}, tb) for e in emits) for _, tb in t[2])
        if not leads:
            continue
        nsw += 1
        missing = sorted(trivia - listed)
        chk.check(not missing or not (listed & trivia), "R01f", "trivia-switch#%d" % nsw,
                  "parse_trivia_tokens emits tokens under a kind test that lists %s but not %s, which bump() also skips as trivia: those tokens are "
                  "neither parsed nor emitted, so their text is missing from the tree and every later offset shifts"
                  % ([nm(v) for v in sorted(listed & trivia)], [nm(v) for v in missing]), ptt.loc(t[4] if len(t) > 4 and isinstance(t[4], int) else None),
                  sample={"rule": "R01f", "switch": nsw, "verdict": "all trivia kinds have an emitting arm"})
    chk.floor("emitting kind switches in parse_trivia_tokens", nsw, 1)
    chk.explanation = ("Marker API outcomes computed from marker.rs's MIR; least-fixpoint outcome sets (variant, d_open) for all grammar "
                       "functions with Result-variant knowledge on paths; who-may-call on the event vector; shape of the EOF predicate.")
