"""C19 (half-open matching clause): the predicate that matches a diagnostic range against a suppression range does
not count touching ranges.

R19  on the path DiagnosticContext::should_report_diagnostic -> ... (call graph), every use of
     rowan TextRange::intersect whose result is consumed only through Option::is_some / is_none is a misuse: two
     ranges that merely touch intersect in an empty range, so `intersect(..).is_some()` is true for them.  Accepted:
     contains / contains_range / contains_inclusive, or intersect whose overlap is tested with is_empty.
"""
import callgraph
import dataflow
import prov
from report import RuleBroken

CA = "emmylua_code_analysis"
ENTRY = CA + "::diagnostic::checker::DiagnosticContext::should_report_diagnostic"


def name(c):
    return c.get("r") or c.get("f") or ""


def run(chk, F, tier):
    chk.rule("R19", "suppression matching never treats an empty (touching) intersection as overlap")
    chk.assume("decides only the range-matching predicate; the construction of each directive's range (+1 line, block range) is position arithmetic and not decided")
    if ENTRY not in F.bodies:
        raise RuleBroken("should_report_diagnostic not found")
    cg = callgraph.CallGraph(F)
    reach = {x for x in cg.reachable([ENTRY]) if x in F.bodies and F.bodies[x].crate == CA}
    chk.floor("functions on the suppression path", len(reach), 3)
    n_pred = 0
    for bid in sorted(reach):
        b = F.bodies[bid]
        for bb, c in b.calls():
            nm = name(c)
            if not nm.startswith("text_size::range::TextRange::"):
                continue
            meth = nm.split("::")[-1]
            if meth in ("contains", "contains_range", "contains_inclusive"):
                n_pred += 1
                chk.ok("R19", "%s@%s" % (meth, bid), {"rule": "R19", "site": bid, "predicate": meth, "verdict": "containment test"})
                continue
            if meth != "intersect":
                continue
            n_pred += 1
            d = c["d"]
            # uses of the result
            P = prov.Prov(F, source=lambda bb_, r, _bb=bb: ({("ISECT", _bb)} if r == ("call", _bb) else None))
            only_variant_test = False
            emptiness_tested = False
            for bb2, c2 in b.calls():
                n2 = name(c2)
                if not c2["a"]:
                    continue
                if n2.endswith("Option::<T>::is_none") or n2.endswith("Option::<T>::is_some"):
                    if ("ISECT", bb) in P.operand_labels(b, c2["a"][0]):
                        only_variant_test = True
                if n2.endswith("TextRange::is_empty") and ("ISECT", bb) in P.operand_labels(b, c2["a"][0]):
                    emptiness_tested = True
            chk.check(emptiness_tested or not only_variant_test, "R19", "intersect@%s" % bid,
                      "%s decides overlap with `intersect(..).is_some()/is_none()`: ranges that only touch intersect in an empty "
                      "range, so a diagnostic starting exactly where the suppressed scope ends is hidden too" % bid, b.loc(c["l"]),
                      sample={"rule": "R19", "site": bid, "verdict": "overlap emptiness is tested"})
    chk.floor("range predicates on the suppression path", n_pred, 1)
    chk.explanation = "Call-graph reachability from the suppression test, then use-classification of every TextRange::intersect result."

    # ---- R19b: the suppression decision is a function of (code, range): no lookup keyed without the code ----------------
    import cfgutil
    chk.rule("R19b", "on the suppression path no map owned by the diagnostic context is consulted under a key that lacks the diagnostic "
                     "code (a memo keyed by range alone lets the first code reported at a range decide for every other code)")
    nmaps = 0
    for bid in sorted(reach):
        b = F.bodies[bid]
        for bb, c in b.calls():
            nm = name(c)
            if not (("HashMap" in nm or "BTreeMap" in nm or "HashSet" in nm) and nm.endswith(("::get", "::get_mut", "::contains_key", "::contains", "::entry", "::insert"))):
                continue
            if not c["a"]:
                continue
            recv = b.ty_str_op(c["a"][0])
            if "TextRange" not in recv and "TextSize" not in recv:
                continue      # only maps keyed by positions matter for scope matching
            nmaps += 1
            chk.check("DiagnosticCode" in recv.split(",")[0] or "DiagnosticCode" in recv.split(">")[0], "R19b", "poskeyed-map@%s" % bid,
                      "%s consults `%s` while deciding whether a diagnostic is suppressed: the key has a position but no diagnostic code, so "
                      "the answer computed for one code is reused for another code at the same range" % (bid.split("::")[-1], recv[:120]),
                      b.loc(c["l"]), sample={"rule": "R19b", "site": bid, "verdict": "key includes the code"})
    chk.unit("position-keyed map lookups on the suppression path", nmaps)

    # ---- R19c: "suppress every code" only when the comment has no code list ---------------------------------------------
    chk.rule("R19c", "DiagnosticActionKind::DisableAll is built only on the None edge of LuaDocTagDiagnostic::get_code_list() "
                     "(a list that names only unknown codes must not widen to every code)")
    nall = 0
    for b in F.bodies.values():
        if b.crate != CA or "::test" in b.id or "/test" in b.file:
            continue
        sites = []
        for bi, blk in enumerate(b.blocks):
            if blk[0]:
                continue
            for st in blk[1]:
                if st[0] == "a" and st[2][0] == "agg" and st[2][1] == "adt" and (st[2][2] or "").endswith("DiagnosticActionKind") and st[2][3] == "DisableAll":
                    sites.append((bi, st[3] if len(st) > 3 else None))
        if not sites:
            continue
        succ = b.succ_map()
        idom = cfgutil.dominators(succ, 0)
        none_edges = []
        for bb, c in b.calls():
            if not name(c).endswith("LuaDocTagDiagnostic::get_code_list") or len(c["d"]) != 1:
                continue
            res = {c["d"][0]}
            for bi in sorted(cfgutil.reachable(succ, c["t"]) | {c["t"]}):
                blk = b.blocks[bi]
                for st in blk[1]:
                    if st[0] == "a" and len(st[1]) == 1 and st[2][0] == "use" and st[2][1][0] in ("c", "m") and len(st[2][1][1]) == 1 and st[2][1][1][0] in res:
                        res.add(st[1][0])
                t = blk[2]
                if t[0] == "sw" and t[1][0] in ("c", "m"):
                    for st in blk[1]:
                        if st[0] == "a" and st[1] == [t[1][1][0]] and st[2][0] == "disc" and st[2][1][0] in res:
                            tg = [tb for v, tb in t[2] if v == 0]
                            none_edges.append(tg[0] if tg else t[3])
        for bi, line in sites:
            nall += 1
            key = "disable-all@%s#%d" % (b.id.split("::")[-1], sites.index((bi, line)) + 1)
            ok = any(cfgutil.dominates(idom, ne, bi) for ne in none_edges)
            chk.check(ok, "R19c", key,
                      "%s builds DiagnosticActionKind::DisableAll on a path that is not the `get_code_list() == None` branch: a comment that "
                      "does carry a code list (for instance only misspelt or foreign code names) would suppress every code in its scope"
                      % b.id.split("::")[-1], b.loc(line),
                      sample={"rule": "R19c", "site": key, "verdict": "only under get_code_list() == None"})
    chk.floor("DisableAll construction sites", nall, 1)
    run_r19d(chk, F)


def run_r19d(chk, F):
    """R19d: the scope recorded for a block-scoped `---@diagnostic disable` is the range of the enclosing LuaBlock itself."""
    chk.rule("R19d", "the range of a block-scoped disable action is the enclosing LuaBlock's own range (get_range()/syntax().text_range() of the "
                     "block found by ancestors::<LuaBlock>()), never the range of a parent or sibling construct")
    fid = "emmylua_code_analysis::compilation::analyzer::doc::diagnostic_tags::analyze_diagnostic_disable"
    b = F.bodies.get(fid)
    if b is None:
        raise RuleBroken("analyze_diagnostic_disable not found")
    BLOCK = "emmylua_parser::syntax::node::lua::LuaBlock"

    def is_block_recv(c):
        return bool(c["a"]) and BLOCK in b.ty_str_op(c["a"][0])

    def root_ok(r):
        if r[0] != "call":
            return False
        c = b.blocks[r[1]][2][1]
        n = c.get("r") or c.get("f") or ""
        if n.endswith("LuaAstNode::get_range") and is_block_recv(c):
            return True
        if n.endswith("::text_range") and c["a"]:
            l = dataflow.operand_local(c["a"][0])
            rs = dataflow.roots(b, l) if l is not None else set()
            return bool(rs) and all(x[0] == "call" and (b.blocks[x[1]][2][1].get("r") or b.blocks[x[1]][2][1].get("f") or "").endswith("LuaAstNode::syntax")
                                    and is_block_recv(b.blocks[x[1]][2][1]) for x in rs)
        return False
    n = 0
    for bb, c in b.calls():
        if not (c.get("r") or c.get("f") or "").endswith("DiagnosticAction::new") or not c["a"]:
            continue
        n += 1
        l = dataflow.operand_local(c["a"][0])
        rs = dataflow.roots(b, l) if l is not None else set()
        bad = [r for r in rs if not root_ok(r)]
        chk.check(bool(rs) and not bad, "R19d", "block-range@analyze_diagnostic_disable#%d" % n,
                  "the range of the block-scoped disable action can come from something other than the enclosing block's own range (%s): the "
                  "suppression then reaches code outside the block that contains the comment (for instance the other branches of an if)"
                  % ("; ".join(sorted({(b.blocks[r[1]][2][1].get("r") or b.blocks[r[1]][2][1].get("f") or "?").split("::")[-1] if r[0] == "call" else r[0] for r in bad})) or "no source"),
                  b.loc(c["l"]), sample={"rule": "R19d", "site": "analyze_diagnostic_disable#%d" % n, "verdict": "range of the enclosing LuaBlock"})
    chk.floor("block-scoped disable actions", n, 2)
