"""C19 (half-open matching clause): the predicate that matches a diagnostic range against a suppression range does
not count touching ranges.

R19  on the path DiagnosticContext::should_report_diagnostic -> ... (call graph), every use of
     rowan TextRange::intersect whose result is consumed only through Option::is_some / is_none is a misuse: two
     ranges that merely touch intersect in an empty range, so `intersect(..).is_some()` is true for them.  Accepted:
     contains / contains_range / contains_inclusive, or intersect whose overlap is tested with is_empty.
"""
import callgraph
import dataflow
import prov
from report import RuleBroken

CA = "emmylua_code_analysis"
ENTRY = CA + "::diagnostic::checker::DiagnosticContext::should_report_diagnostic"


def name(c):
    return c.get("r") or c.get("f") or ""


def run(chk, F, tier):
    chk.rule("R19", "suppression matching never treats an empty (touching) intersection as overlap")
    chk.assume("decides only the range-matching predicate; the construction of each directive's range (+1 line, block range) is position arithmetic and not decided")
    if ENTRY not in F.bodies:
        raise RuleBroken("should_report_diagnostic not found")
    cg = callgraph.CallGraph(F)
    reach = {x for x in cg.reachable([ENTRY]) if x in F.bodies and F.bodies[x].crate == CA}
    chk.floor("functions on the suppression path", len(reach), 3)
    n_pred = 0
    for bid in sorted(reach):
        b = F.bodies[bid]
        for bb, c in b.calls():
            nm = name(c)
            if not nm.startswith("text_size::range::TextRange::"):
                continue
            meth = nm.split("::")[-1]
            if meth in ("contains", "contains_range", "contains_inclusive"):
                n_pred += 1
                chk.ok("R19", "%s@%s" % (meth, bid), {"rule": "R19", "site": bid, "predicate": meth, "verdict": "containment test"})
                continue
            if meth != "intersect":
                continue
            n_pred += 1
            d = c["d"]
            # uses of the result
            P = prov.Prov(F, source=lambda bb_, r, _bb=bb: ({("ISECT", _bb)} if r == ("call", _bb) else None))
            only_variant_test = False
            emptiness_tested = False
            for bb2, c2 in b.calls():
                n2 = name(c2)
                if not c2["a"]:
                    continue
                if n2.endswith("Option::<T>::is_none") or n2.endswith("Option::<T>::is_some"):
                    if ("ISECT", bb) in P.operand_labels(b, c2["a"][0]):
                        only_variant_test = True
                if n2.endswith("TextRange::is_empty") and ("ISECT", bb) in P.operand_labels(b, c2["a"][0]):
                    emptiness_tested = True
            chk.check(emptiness_tested or not only_variant_test, "R19", "intersect@%s" % bid,
                      "%s decides overlap with `intersect(..).is_some()/is_none()`: ranges that only touch intersect in an empty "
                      "range, so a diagnostic starting exactly where the suppressed scope ends is hidden too" % bid, b.loc(c["l"]),
                      sample={"rule": "R19", "site": bid, "verdict": "overlap emptiness is tested"})
    chk.floor("range predicates on the suppression path", n_pred, 1)
    chk.explanation = "Call-graph reachability from the suppression test, then use-classification of every TextRange::intersect result."
