"""C24: every request gets exactly one response -- must-respond on every dispatch path.

R24a  dispatch coroutine of on_request_handler: every path from entry to return passes exactly one responder
      (ServerContext::task(id, ..) or ServerContext::send(Response)); no path passes two.
R24b  ServerContext::task's spawned body: every feasible path to completion performs exactly one
      sender.send(Message::Response(_)); the user-supplied handler future is not polled directly in the task
      (a panic would unwind the task past the send) but awaited through an isolating JoinHandle/catch_unwind.
R24c  message loop: a Request either is the shutdown request or reaches on_request_handler; requests that arrive
      during initialization are queued and later replayed through handle_message.
R24e  the per-message dispatchers never return Err (an Err ends the server loop and every later request is unanswered);
      the queue of messages received during initialization is only appended to and replayed.
R24d  run_ls: between initialize_start (which yields the request id) and initialize_finish no panic-capable call
      and no return without an error response for that id.
"""
import cfgutil
import guards
import paths
from report import RuleBroken

LS = "emmylua_ls"
DISPATCH = LS + "::handlers::request_handler::on_request_handler::{closure#0}"
TASK = LS + "::context::ServerContext::task"
SEND = LS + "::context::ServerContext::send"
PANICKY = ("core::result::Result::<T, E>::unwrap", "core::result::Result::<T, E>::expect",
           "core::option::Option::<T>::unwrap", "core::option::Option::<T>::expect",
           "core::panicking::panic", "core::panicking::panic_fmt", "core::panicking::unreachable_display",
           "core::panicking::panic_display", "core::panicking::panic_explicit")


def name(c):
    return c.get("r") or c.get("f") or ""


def run(chk, F, tier):
    chk.rule("R24a", "dispatch: every path entry->return passes exactly one of ServerContext::task / ServerContext::send")
    chk.rule("R24b", "task body: exactly one Response send on every feasible path; handler future isolated from unwinding")
    chk.rule("R24c", "message loop: requests reach the dispatcher or the shutdown handler; queued requests are replayed")
    chk.rule("R24e", "dispatchers never return Err; the initialization queue is append/replay only")
    chk.rule("R24d", "initialize: no panic site or unanswered return between initialize_start and initialize_finish")
    chk.assume("the lsp-server crate delivers every parsed message to the loop and its Sender delivers to the client")
    chk.assume("decides the response discipline of the dispatch code; handler internals are covered by C25's panic surface")
    d = F.bodies.get(DISPATCH)
    if d is None:
        raise RuleBroken("dispatch coroutine not found")
    succ = d.succ_map()
    resp = {bb for bb, c in d.calls() if name(c) in (TASK, SEND)}
    extracts = [(bb, c) for bb, c in d.calls() if name(c) == "lsp_server::msg::Request::extract"]
    chk.floor("dispatch arms (Request::extract sites)", len(extracts), 38)
    chk.floor("responder call sites", len(resp), 39)
    rets = set(d.returns())
    # per arm: after the extract call, is a return reachable without a responder?
    bad_arms = []
    for bb, c in extracts:
        p = cfgutil.paths_avoiding(succ, bb, rets, resp)
        ty = d.ty_str(c["ga"][0]) if c.get("ga") else "?"
        if p is not None:
            bad_arms.append((ty, p))
        else:
            chk.ok("R24a", "arm:%s" % ty, {"rule": "R24a", "arm_params": ty, "verdict": "every path after extract responds"})
    if bad_arms:
        chk.violation("R24a", "dispatch:extract-failure-unanswered",
                      "%d of %d dispatch arms can return without any response after Request::extract (its Err edge -- "
                      "params that fail to deserialize -- falls through to Ok(())); e.g. %s: the client waits forever"
                      % (len(bad_arms), len(extracts), bad_arms[0][0]), d.loc(extracts[0][1]["l"]),
                      witness={"arms": [a for a, _ in bad_arms], "path_blocks_first": bad_arms[0][1]})
    # whole function: no other unanswered path (e.g. the fallback arm)
    if not bad_arms:
        p = cfgutil.paths_avoiding(succ, 0, rets, resp)
        chk.check(p is None, "R24a", "dispatch:all-paths-respond", "a path through the dispatcher returns without responding",
                  d.loc(), witness={"path_blocks": p})
    else:
        # the default arm: from the last failed method comparison
        pass
    # at most once
    twice = []
    for r in resp:
        if (cfgutil.reachable(succ, r) - {r}) & resp:
            twice.append(r)
    chk.check(not twice, "R24a", "dispatch:at-most-once", "a dispatch path passes two responders", d.loc(),
              witness={"blocks": twice})

    # ---- R24b
    inner = F.bodies.get(TASK + "::{closure#0}::{closure#0}")
    if inner is None:
        raise RuleBroken("spawned body of ServerContext::task not found")
    is_send = lambda c: name(c).startswith("crossbeam_channel::channel::Sender") and name(c).endswith("::send")
    sends = {bb for bb, c in inner.calls() if is_send(c)}
    chk.floor("response sends in task body", len(sends), 1)
    rets = set(inner.returns())
    counts = {}

    def on_path(p):
        n = sum(1 for x in p if x in sends)
        counts.setdefault(n, p)
    n, trunc = paths.enumerate_paths(inner, 0, lambda bb: bb in rets, max_visits=2, max_paths=200000, on_path=on_path)
    chk.unit("task-body feasible paths", n)
    chk.check(not trunc, "R24b", "task:paths-enumerated", "path enumeration truncated", inner.loc())
    chk.check(set(counts) == {1}, "R24b", "task:exactly-one-send",
              "a feasible path through the request task sends %s responses" % sorted(counts), inner.loc(),
              witness={str(k): v[:60] for k, v in counts.items() if k != 1},
              sample={"rule": "R24b", "paths": n, "sends_per_path": sorted(counts), "verdict": "exactly one"})
    # isolation: no Future::poll on a generic-parameter future in the spawned body
    direct = []
    for bb, c in inner.calls():
        if name(c).endswith("future::Future::poll") or c.get("f") == "core::future::future::Future::poll":
            gts = [inner.ty(g) for g in c.get("ga", [])]
            # the user-supplied handler future is a generic parameter of `task`; opaque futures of library
            # async fns (e.g. tokio Mutex::lock) are not handler code
            if any(t[2] == "param" for t in gts):
                direct.append((bb, [t[0] for t in gts]))
    chk.check(not direct, "R24b", "task:handler-unwind-isolated",
              "the handler future (%s) is polled directly inside the spawned request task: a panic in any handler "
              "unwinds the task before a response is sent and the request is never answered"
              % (direct[0][1] if direct else ""), inner.loc(),
              witness={"poll_sites": [str(x) for x in direct]})

    # ---- R24c
    hm = F.bodies.get(LS + "::server::message_processor::ServerMessageProcessor::handle_message::{closure#0}")
    if hm is None:
        raise RuleBroken("handle_message coroutine not found")
    succ = hm.succ_map()
    orh = {bb for bb, c in hm.calls() if name(c) == LS + "::handlers::request_handler::on_request_handler"}
    hs = {bb for bb, c in hm.calls() if name(c).endswith("AsyncConnection::handle_shutdown")}
    chk.check(bool(orh) and bool(hs), "R24c", "handle_message:calls", "handle_message no longer calls handle_shutdown and on_request_handler", hm.loc())
    if orh and hs:
        p = cfgutil.paths_avoiding(succ, 0, orh, hs)
        chk.check(p is None, "R24c", "handle_message:shutdown-first", "on_request_handler reachable without the shutdown test", hm.loc())
        # after handle_shutdown, every path to return passes on_request_handler, a `?` error exit or the shutdown-true return
        errs = {bb for bb, c in hm.calls() if name(c).endswith("FromResidual<core::result::Result<core::convert::Infallible, E>>>::from_residual")}
        closes = {bb for bb, c in hm.calls() if name(c).endswith("ServerContext::close")}
        rets = set(hm.returns())
        for h in hs:
            p = cfgutil.paths_avoiding(succ, h, rets, orh | errs | closes)
            # a path avoiding all of them must be the `shutdown == true` return: accept only if it assigns Ok(true)
            ok = True
            if p is not None:
                ok = any(st[0] == "a" and st[2][0] == "agg" and st[2][3] == "Ok" and
                         st[2][4] and st[2][4][0][0] == "k" and st[2][4][0][2] is True
                         for x in p for st in hm.blocks[x][1])
            chk.check(ok, "R24c", "handle_message:request-dispatched",
                      "a Request can leave handle_message without being dispatched, shut down or failing", hm.loc(),
                      witness={"path_blocks": p})
    wi = F.bodies.get(LS + "::server::lsp_server::LspServer::wait_for_initialization::{closure#0}")
    pp = F.bodies.get(LS + "::server::message_processor::ServerMessageProcessor::process_pending_messages::{closure#0}")
    run_ = F.bodies.get(LS + "::server::lsp_server::LspServer::run::{closure#0}")
    if wi is None or pp is None or run_ is None:
        raise RuleBroken("initialization loop functions not found")
    succ = wi.succ_map()
    cp = [bb for bb, c in wi.calls() if name(c).endswith("can_process_during_init")]
    pushes = {bb for bb, c in wi.calls() if name(c).startswith("alloc::vec::Vec") and name(c).endswith("::push")}
    hmc = {bb for bb, c in wi.calls() if name(c).endswith("ServerMessageProcessor::handle_message")}
    ok = bool(cp) and bool(pushes)
    for g in cp:
        br = guards.bool_branch(wi, g)
        if br is None:
            ok = False
            continue
        # the false edge must reach the push before the next recv/loop head or return
        recv = {bb for bb, c in wi.calls() if name(c).endswith("AsyncConnection::recv")}
        p = cfgutil.paths_avoiding(succ, br[1], set(wi.returns()) | recv, pushes)
        if p is not None:
            ok = False
        p2 = cfgutil.paths_avoiding(succ, br[0], set(wi.returns()) | recv, hmc)
        if p2 is not None:
            ok = False
    chk.check(ok, "R24c", "init:queue-or-handle", "a message received during initialization is neither handled nor queued", wi.loc())
    takes = any(name(c) == "core::mem::take" for _, c in pp.calls())
    replays = any(name(c).endswith("ServerMessageProcessor::handle_message") for _, c in pp.calls())
    chk.check(takes and replays, "R24c", "init:replay", "process_pending_messages no longer replays the queued messages through handle_message", pp.loc())
    succ = run_.succ_map()
    w = {bb for bb, c in run_.calls() if name(c).endswith("wait_for_initialization")}
    q = {bb for bb, c in run_.calls() if name(c).endswith("process_pending_messages")}
    ml = {bb for bb, c in run_.calls() if name(c).endswith("process_message")}
    p = cfgutil.paths_avoiding(succ, 0, ml, q) if (ml and q) else [0]
    chk.check(bool(w) and bool(q) and p is None, "R24c", "init:replay-before-loop",
              "the main loop can start before the queued messages are replayed", run_.loc())

    # ---- R24c' the initialization queue is append-only until it is replayed
    nq = 0
    for b in F.bodies.values():
        if b.crate != LS:
            continue
        for bi, blk in enumerate(b.blocks):
            if blk[0]:
                continue
            for st in blk[1]:
                if st[0] == "a" and st[2][0] == "ref" and st[2][1] == "m" and \
                        any(isinstance(e, list) and e[0] == "f" and e[2] == "pending_messages" for e in st[2][2][1:]):
                    # who consumes this &mut borrow?
                    l = st[1][0] if len(st[1]) == 1 else None
                    for bb2, c2 in b.calls():
                        if any(a[0] in ("c", "m") and a[1] == [l] for a in c2["a"]):
                            nq += 1
                            api = name(c2)
                            ok = (api.startswith("alloc::vec::Vec") and api.endswith("::push")) or api == "core::mem::take"
                            chk.check(ok, "R24c", "queue-writer:%s@%s" % (api.split("::")[-1], b.id),
                                      "%s mutates the queue of messages received during initialization with %s: a queued "
                                      "request that is removed instead of replayed is never answered" % (b.id, api), b.loc(c2["l"]),
                                      sample={"rule": "R24c", "site": b.id, "api": api, "verdict": "append or replay"})
    chk.floor("writers of the initialization queue", nq, 1)

    # ---- R24e a single message never ends the loop: the notification and request dispatchers cannot return Err
    for fid in (LS + "::handlers::notification_handler::on_notification_handler::{closure#0}", DISPATCH):
        hb = F.bodies.get(fid)
        if hb is None:
            raise RuleBroken("%s not found" % fid)
        errs = [bb for bb, c in hb.calls() if "FromResidual" in name(c)]
        err_aggs = [bi for bi, blk in enumerate(hb.blocks) if not blk[0] for st in blk[1]
                    if st[0] == "a" and st[1] == [0] and st[2][0] == "agg" and st[2][3] == "Err"]
        chk.check(not errs and not err_aggs, "R24e", "never-err:%s" % fid.split("::")[-2],
                  "%s can return Err (a `?` or explicit Err): handle_message propagates it with `?` and the server loop ends, so "
                  "every later request goes unanswered" % fid.split("::")[-2], hb.loc(),
                  witness={"from_residual_blocks": errs, "err_blocks": err_aggs},
                  sample={"rule": "R24e", "fn": fid.split("::")[-2], "verdict": "all returns are Ok"})

    # ---- R24d
    rl = F.bodies.get(LS + "::server::run_ls::{closure#0}")
    if rl is None:
        raise RuleBroken("run_ls coroutine not found")
    succ = rl.succ_map()
    st = {bb for bb, c in rl.calls() if name(c) == "lsp_server::Connection::initialize_start"}
    fin = {bb for bb, c in rl.calls() if name(c) == "lsp_server::Connection::initialize_finish"}
    chk.check(len(st) == 1 and len(fin) == 1, "R24d", "init:anchors", "initialize_start/initialize_finish not found exactly once", rl.loc())
    if len(st) == 1 and len(fin) == 1:
        s0 = next(iter(st))
        f0 = next(iter(fin))
        # the Ok edge of initialize_start's `?`
        after = cfgutil.reachable(succ, s0)
        before_fin = set()
        # blocks on some path s0 -> f0 (reachable from s0 and reaching f0)
        pred = rl.pred_map()
        back = {f0}
        stack = [f0]
        while stack:
            x = stack.pop()
            for p_ in pred[x]:
                if p_ not in back:
                    back.add(p_)
                    stack.append(p_)
        between = (after & back) - {s0, f0}
        n_audited = 0
        for bb in sorted(between):
            t = rl.blocks[bb][2]
            if t[0] != "call":
                continue
            c = t[1]
            if name(c) in PANICKY:
                if c.get("x"):
                    n_audited += 1
                    chk.ok("R24d", "init:macro-unwrap#%d" % n_audited,
                           {"rule": "R24d", "site": rl.loc(c["l"]), "verdict": "audited: unwrap inside json! expansion on a derived Serialize value"})
                    continue
                chk.violation("R24d", "init:panic-site:%s" % name(c).split("::")[-1],
                              "%s between initialize_start and initialize_finish: an `initialize` whose params do not "
                              "deserialize panics the server before any response for the request id is sent" % name(c),
                              rl.loc(c["l"]))
        # returns reachable after s0 without passing f0 or an explicit error response
        senders = {bb for bb, c in rl.calls() if name(c).startswith("crossbeam_channel::channel::Sender") and name(c).endswith("::send")}
        # the `?` on initialize_start itself returns before an id exists: start from its continue edge
        nxt = rl.blocks[s0][2][1]["t"]
        start = nxt
        t = rl.blocks[nxt][2]
        if t[0] == "call" and name(t[1]).endswith("Try>::branch"):
            sw = rl.blocks[t[1]["t"]][2]
            if sw[0] == "sw":
                cont = [tb for v, tb in sw[2] if v == 0]
                start = cont[0] if cont else sw[3]
        p = cfgutil.paths_avoiding(succ, start, set(rl.returns()), fin | senders)
        chk.check(p is None, "R24d", "init:return-without-response",
                  "run_ls can return after initialize_start without initialize_finish or an error response", rl.loc(),
                  witness={"path_blocks": p})
    # R24f: the transport never drops a client message
    chk.rule("R24f", "the forwarding of client messages to the main loop never gives up on a message: no try_send (or other non-waiting send) on "
                     "the path from the transport reader to the dispatcher")
    nfw = 0
    for b in F.bodies.values():
        if b.crate != "emmylua_ls" or not b.id.startswith("emmylua_ls::server::") or "::test" in b.id:
            continue
        for bb, c in b.calls():
            n = c.get("r") or c.get("f") or ""
            if "mpsc" in n and n.split("::")[-1] in ("send", "try_send", "blocking_send", "send_timeout", "try_reserve"):
                nfw += 1
                lossy = n.split("::")[-1] in ("try_send", "send_timeout", "try_reserve")
                chk.check(not lossy, "R24f", "forward@%s#%d" % (b.id.replace("emmylua_ls::server::", ""), nfw),
                          "%s forwards a client message with %s: when the queue is full the message is dropped (and here the forwarding task ends), so the "
                          "request is never answered and everything the client sends afterwards stays unread" % (b.id.split("::")[-1] if not b.id.endswith("}") else "::".join(b.id.split("::")[-2:]), n.split("::")[-1]),
                          b.loc(c["l"]), sample={"rule": "R24f", "site": b.id, "verdict": "waiting send"})
    chk.floor("message forwarding sends in the server transport", nfw, 1)
    chk.explanation = ("Must-pass-through / at-most-once on the dispatch coroutine, feasible-path enumeration of the request "
                       "task body with send counting, guard-edge checks on the initialization queue, panic-site scan between "
                       "initialize_start and initialize_finish.")
