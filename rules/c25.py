"""C25 (precondition-guard dominance): position-based handlers never hand a client-derived offset to a rowan API with a
range precondition without first comparing it with the tree's end.

R25a  every call of SyntaxNode::token_at_offset / covering_element / child_or_token_at_range in emmylua_ls whose offset
      argument may derive from the client (LuaDocument::get_offset, get_col_offset_at_line, to_rowan_range, fields of lsp
      Position/Range; followed through parameters to all callers) is dominated by a comparison of that offset with a
      text_range().end() value.  Offsets taken from the tree itself (token/node ranges) need no guard.
R25b  LuaDocument::to_rowan_range never builds TextRange::new(start, end) from a reversed client range: the TextRange::new
      call is dominated by a start<=end comparison.
"""
import cfgutil
import dataflow
import prov
from report import RuleBroken

LS = "emmylua_ls"
API = ("rowan::api::SyntaxNode::<L>::token_at_offset", "rowan::api::SyntaxNode::<L>::covering_element",
       "rowan::api::SyntaxNode::<L>::child_or_token_at_range")
CLIENT_SOURCES = ("LuaDocument::get_offset", "LuaDocument::get_col_offset_at_line", "LuaDocument::to_rowan_range",
                  "LineIndex::get_offset", "LineIndex::get_col_offset_at_line")
TREE_SOURCES = ("::text_range", "::get_range", "::get_position", "TextRange::start", "TextRange::end", "::syntax")


def name(c):
    return c.get("r") or c.get("f") or ""


def make_prov(F):
    def source(b, r):
        if r[0] == "call":
            n = name(b.blocks[r[1]][2][1])
            if n.endswith(CLIENT_SOURCES):
                return {("CLIENT", n.split("::")[-1])}
            if n.endswith(("TextRange::start", "TextRange::end", "::text_range", "::get_range", "::get_position")):
                return {("TREE", n.split("::")[-1])}
        if r[0] == "place":
            ts = b.local_ty_str(r[1])
            if "emmy_lsp_types::Position" in ts or "emmy_lsp_types::Range" in ts or "PositionParams" in ts:
                return {("CLIENT", "lsp position field")}
        if r[0] == "arg":
            ts = b.local_ty_str(r[1])
            if "emmy_lsp_types::Position" in ts or "emmy_lsp_types::Range" in ts:
                return {("CLIENT", "lsp position parameter")}
        return None
    return prov.Prov(F, source=source)


def has_end_guard(b, call_bb, P):
    """a comparison involving a text_range end value dominates the call"""
    succ = b.succ_map()
    idom = cfgutil.dominators(succ, 0)
    for bi, blk in enumerate(b.blocks):
        if blk[0] or not cfgutil.dominates(idom, bi, call_bb):
            continue
        cmp_ops = []
        for st in blk[1]:
            if st[0] == "a" and st[2][0] == "bin" and st[2][1] in ("Gt", "Ge", "Lt", "Le"):
                cmp_ops.append(st[2][2:4])
        t = blk[2]
        if t[0] == "call" and name(t[1]).endswith(("PartialOrd::gt", "PartialOrd::ge", "PartialOrd::lt", "PartialOrd::le",
                                                   "::gt", "::ge", "::lt", "::le", "::contains_inclusive", "::contains")):
            cmp_ops.append(t[1]["a"][:2])
        for ops in cmp_ops:
            labs = set()
            for o in ops:
                labs |= P.operand_labels(b, o)
            if any(l[0] == "TREE" and l[1] in ("end", "text_range", "get_range") for l in labs):
                return True
    return False


def run(chk, F, tier):
    chk.rule("R25a", "client-derived offsets are compared with the tree's end before reaching a rowan API with a range precondition")
    chk.rule("R25b", "to_rowan_range guards TextRange::new against reversed client ranges")
    chk.assume("semantic crashes deeper inside a handler are outside this rule (panic surface of handlers is not audited here)")
    P = make_prov(F)
    idx = {}
    for b in F.bodies.values():
        for bb, c in b.calls():
            idx.setdefault(name(c), []).append((b, bb, c))
    n = 0
    n_client = 0

    def guarded_upwards(b, local_arg_index, depth, seen):
        """the parameter `local_arg_index` of b is client tainted: every caller must guard or pass a tree value"""
        owner = b.id
        res = []
        for cb, cbb, cc in idx.get(owner, []):
            if (cb.id, cbb) in seen or depth > 3:
                continue
            seen.add((cb.id, cbb))
            if local_arg_index - 1 >= len(cc["a"]):
                continue
            labs = P.operand_labels(cb, cc["a"][local_arg_index - 1])
            if not any(l[0] in ("CLIENT", "ENTRY_ARG") for l in labs):
                continue
            if has_end_guard(cb, cbb, P):
                continue
            res.append((cb, cbb, cc))
        return res

    for api in API:
        for b, bb, c in idx.get(api, []):
            if b.crate != LS or "::test" in b.id:
                continue
            n += 1
            off = c["a"][1] if len(c["a"]) > 1 else None
            if off is None:
                continue
            labs = P.operand_labels(b, off)
            kinds = {l[0] for l in labs}
            key = "%s@%s" % (api.split("::")[-1], b.id.replace(LS + "::handlers::", ""))
            if "CLIENT" not in kinds and "ENTRY_ARG" not in kinds:
                chk.ok("R25a", key, {"rule": "R25a", "site": key, "offset_provenance": sorted(kinds), "verdict": "offset comes from the tree / is not client derived"})
                continue
            n_client += 1
            if has_end_guard(b, bb, P):
                chk.ok("R25a", key, {"rule": "R25a", "site": key, "verdict": "dominated by a comparison with text_range().end()"})
                continue
            # the offset may be a parameter guarded by every caller
            l = dataflow.operand_local(off)
            params = [r[1] for r in dataflow.roots(b, l)] if l is not None else []
            param_roots = [r for r in (dataflow.roots(b, l) if l is not None else []) if r[0] == "arg"]
            direct_client = any(l_[0] == "CLIENT" for l_ in labs) and not param_roots
            bad_callers = []
            if param_roots and not direct_client:
                for r in param_roots:
                    bad_callers += guarded_upwards(b, r[1], 0, set())
                if not bad_callers:
                    chk.ok("R25a", key, {"rule": "R25a", "site": key, "verdict": "offset parameter is guarded at every client-tainted call site"})
                    continue
            chk.violation("R25a", key,
                          "%s receives an offset derived from the client position (%s) without a dominating comparison against the "
                          "tree's end: a position past the end of the document panics inside rowan (\"Bad offset\")%s"
                          % (api.split("::")[-1], sorted({l_[1] for l_ in labs if l_[0] == "CLIENT"}) or "through a parameter",
                             (" -- unguarded callers: %s" % [x[0].id.split("::")[-2] for x in bad_callers[:3]]) if bad_callers else ""),
                          b.loc(c["l"]), witness={"labels": sorted(map(str, labs))[:8]})
    chk.floor("rowan range-precondition call sites in handlers", n, 18)
    chk.floor("client-tainted sites", n_client, 8)
    from rules import c25c
    c25c.run_r25c(chk, F)
    c25c.run_r25d(chk, F)
    # R25b
    tr = None
    for k, b in F.bodies.items():
        if k.endswith("LuaDocument::to_rowan_range"):
            tr = b
    if tr is None:
        raise RuleBroken("LuaDocument::to_rowan_range not found")
    news = [bb for bb, c in tr.calls() if name(c) == "text_size::range::TextRange::new"]
    succ = tr.succ_map()
    idom = cfgutil.dominators(succ, 0)
    ok = bool(news)
    for nb in news:
        guarded = False
        for bi, blk in enumerate(tr.blocks):
            if not cfgutil.dominates(idom, bi, nb) or bi == nb:
                continue
            for st in blk[1]:
                if st[0] == "a" and st[2][0] == "bin" and st[2][1] in ("Gt", "Ge", "Lt", "Le"):
                    guarded = True
            t = blk[2]
            if t[0] == "call" and name(t[1]).endswith(("::gt", "::ge", "::lt", "::le", "::min", "::max", "::cmp")):
                guarded = True
        ok = ok and guarded
    chk.check(ok, "R25b", "to_rowan_range:ordered",
              "to_rowan_range builds TextRange::new(start, end) from client positions without checking start <= end: a reversed "
              "range in any range-based request panics", tr.loc())
    chk.explanation = "Offset provenance (client vs tree) at every rowan API with a range precondition, dominance of an end comparison, obligations propagated to callers for offset parameters."
