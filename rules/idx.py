"""C08 / C09 / C10: removal and clear coverage of the per-file analysis state (DESIGN.md section 5).

R08a  for every `impl LuaIndex for X`: every field of X that any other `&mut self` method may write is also
      written by `remove` (or is in the exemption table with a reason).
R08b  `DbIndex::remove` calls `remove` on every field whose type implements LuaIndex, on every path.
R08c  update entry points: Vfs::set_*file_content -> remove_index -> update_index on every path.
R09a  same as R08a for `clear` (exemptions only for fields that are configuration, not analysis facts).
R09b  `DbIndex::clear` delegates to every LuaIndex field.
R09c  reindex: get_all_file_ids -> clear_index -> update_index.
R10   remove_file_by_uri: Vfs::remove_file then remove_index on the success path; Vfs::remove_file covers
      every per-file field of Vfs.
"""
import cfgutil
import effects
import dataflow
from report import RuleBroken

CA = "emmylua_code_analysis"
LUAINDEX = CA + "::db_index::traits::LuaIndex"
DBINDEX = CA + "::db_index::DbIndex"
VFS = CA + "::vfs::Vfs"
ANALYSIS = CA + "::EmmyLuaAnalysis"
COMPILATION = CA + "::compilation::LuaCompilation"

# (type, field) -> reason.  Frozen from today's tree by reading each field; a *new* field is never exempt.
EXEMPT_REMOVE = {
    ("LuaModuleIndex", "module_patterns"): "configuration mirror (set_module_extract_patterns/update_config), not per-file",
    ("LuaModuleIndex", "module_replace_vec"): "configuration mirror (set_module_replace_patterns), not per-file",
    ("LuaModuleIndex", "fuzzy_search"): "configuration mirror (update_config), not per-file",
    ("LuaModuleIndex", "workspaces"): "workspace roots, mutated only by add/remove workspace APIs, not per-file",
    ("LuaModuleIndex", "id_counter"): "monotonic module-id allocator; ids are never reused by design",
    ("LuaPropertyIndex", "id_count"): "monotonic property-id allocator; ids are never reused by design",
    ("JsonSchemaIndex", "schema_files"): "URL-keyed download cache; entries are not attributed to a file so "
                                         "remove(file_id) has nothing to select (the clear() omission is reported under C09)",
}
EXEMPT_CLEAR = {
    ("LuaModuleIndex", "module_patterns"): "configuration mirror, re-derived from emmyrc on update_config; survives reindex by design",
    ("LuaModuleIndex", "module_replace_vec"): "configuration mirror; survives reindex by design",
    ("LuaModuleIndex", "fuzzy_search"): "configuration mirror; survives reindex by design",
    ("LuaModuleIndex", "workspaces"): "workspace roots are inputs of the analysis (C09 fixes the configuration), not facts",
    ("LuaModuleIndex", "id_counter"): "monotonic allocator; module ids are opaque",
}
# Vfs fields that are not per-file content
EXEMPT_VFS_REMOVE = {
    "emmyrc": "configuration",
    "node_cache": "rowan interning cache (semantically transparent, see C04)",
    "remote_file_id_map": "remote (virtual) uri -> id table; ids are stable handles, content lives in file_data",
}


def short(p):
    return p.split("::")[-1]


def index_types(F):
    res = {}
    for im in F.impls_of(LUAINDEX):
        ty = im["_types"][im["self"]]
        if ty[2] != "adt":
            continue
        items = {short(i[0]): i[0] for i in im["items"]}
        res[ty[3]] = items
    return res


def methods_of(F, X):
    """all fn bodies in an impl whose self type is X and whose first parameter is `&mut X`"""
    out = []
    for b in F.bodies.values():
        if b.kind != "fn" or b.get("impl_self") is None:
            continue
        st = b.ty(b.get("impl_self"))
        if st[3] != X:
            continue
        if b.argc >= 1:
            t = b.local_ty(1)
            if t[0].startswith("&mut ") and t[3] == X and t[1] == 1:
                out.append(b)
    return out


def field_names(F, X):
    adt = F.adts.get(X)
    if adt is None:
        raise RuleBroken("no ADT facts for %s" % X)
    return [(f["name"], f["ty"], adt["_types"]) for f in adt["variants"][0]["fields"]]


def coverage(chk, F, ws, X, special, exempt, rule, what):
    """Mut(X) minus exempt must be a subset of W(special)"""
    ms = methods_of(F, X)
    sx = short(X)
    spec_ids = special
    mut = {}
    for b in ms:
        if b.id in spec_ids.values():
            continue
        w = ws.writes(b.id, 1)
        for f in w:
            mut.setdefault(f, []).append(b.id)
    wsp = ws.writes(spec_ids[what], 1)
    if wsp is None:
        raise RuleBroken("%s::%s has no body" % (X, what))
    sb = F.bodies[spec_ids[what]]
    n = 0
    for f, writers in sorted(mut.items()):
        if f == "*":
            chk.violation(rule, "%s.*" % sx, "a method of %s lets the whole object escape into unanalysed code: %s"
                          % (sx, writers[:3]), sb.loc())
            continue
        n += 1
        key = "%s.%s" % (sx, f)
        if (sx, f) in exempt:
            chk.ok(rule, key, {"rule": rule, "field": key, "verdict": "exempt", "reason": exempt[(sx, f)]})
            continue
        chk.check(f in wsp or "*" in wsp, rule, key,
                  "field `%s` of %s is written by %s but never touched by `%s`: state populated on the add path "
                  "survives %s" % (f, sx, ", ".join(short_m(w) for w in writers[:4]), what,
                                   "removal of the file" if what == "remove" else "reindex"),
                  sb.loc(),
                  witness={"type": X, "field": f, "writers": writers, "W(%s)" % what: sorted(wsp)},
                  sample={"rule": rule, "field": key, "writers": [short_m(w) for w in writers[:3]],
                          "W(%s)" % what: sorted(wsp), "verdict": "covered"})
    return n, len(ms)


def short_m(m):
    return "::".join(m.split("::")[-2:])


def delegation(chk, F, rule, what):
    """DbIndex::<what> must call <FieldTy as LuaIndex>::<what> on every LuaIndex field, on every path to return"""
    idx = index_types(F)
    impl = idx.get(DBINDEX)
    if not impl or what not in impl:
        raise RuleBroken("impl LuaIndex for DbIndex not found")
    b = F.bodies.get(impl[what])
    if b is None:
        raise RuleBroken("no body for DbIndex::%s" % what)
    succ = b.succ_map()
    rets = set(b.returns())
    n = 0
    for fname, tyi, types in field_names(F, DBINDEX):
        t = types[tyi]
        if t[2] != "adt" or t[3] not in idx or t[3] == DBINDEX:
            continue
        n += 1
        target = idx[t[3]][what]
        # call blocks whose callee is that impl method and whose receiver is &mut self.<fname>
        blocks = set()
        for bb, c in b.calls():
            if (c.get("r") or c.get("f")) != target:
                continue
            if receiver_field(b, bb, c) == fname:
                blocks.add(bb)
        key = "DbIndex::%s->%s" % (what, fname)
        if not blocks:
            chk.violation(rule, key, "DbIndex::%s never calls %s::%s on field `%s`" % (what, short(t[3]), what, fname),
                          b.loc(), witness={"field": fname, "expected_callee": target})
            continue
        p = cfgutil.paths_avoiding(succ, 0, rets, blocks)
        chk.check(p is None, rule, key,
                  "a path through DbIndex::%s reaches return without calling %s on `%s`" % (what, what, fname),
                  b.loc(), witness={"path_blocks": p},
                  sample={"rule": rule, "field": fname, "callee": target, "verdict": "called on every path"})
    return n


def receiver_field(b, bb, c):
    """name of the self field whose &mut borrow is the first argument of the call, if any"""
    if not c["a"]:
        return None
    a = c["a"][0]
    if a[0] not in ("c", "m"):
        return None
    loc = a[1][0]
    # find the defining `loc = &mut (*_1).field` (search the whole body; temporaries are assigned once)
    for blk in b.blocks:
        for st in blk[1]:
            if st[0] == "a" and st[1] == [loc] and st[2][0] == "ref":
                pl = st[2][2]
                if pl[0] == 1 and len(pl) >= 3 and pl[1] == "*" and isinstance(pl[2], list) and pl[2][0] == "f":
                    return pl[2][2]
    return None


def call_blocks(b, pred):
    return {bb for bb, c in b.calls() if pred(c.get("r") or c.get("f") or "")}


def must_precede(chk, b, rule, key, first, then, what):
    """every path from entry to a `then` call passes a `first` call"""
    succ = b.succ_map()
    A = call_blocks(b, first)
    B = call_blocks(b, then)
    if not B:
        return None
    if not A:
        chk.violation(rule, key, "%s: required predecessor call is missing" % what, b.loc())
        return False
    p = cfgutil.paths_avoiding(succ, 0, B, A)
    return chk.check(p is None, rule, key, what, b.loc(), witness={"path_blocks": p},
                     sample={"rule": rule, "function": b.id, "order": what, "verdict": "holds on every path"})


def ordering(chk, F, rule):
    """R08c: in every EmmyLuaAnalysis method that calls update_index (except reindex, see R09c):
    set_file_content -> remove_index -> update_index"""
    n = 0
    is_set = lambda c: c.startswith(VFS + "::set_file_content") or c.startswith(VFS + "::set_remote_file_content")
    is_rm = lambda c: c == COMPILATION + "::remove_index"
    is_up = lambda c: c == COMPILATION + "::update_index"
    is_clear = lambda c: c == COMPILATION + "::clear_index"
    for b in F.bodies.values():
        if b.kind != "fn" or b.crate != CA:
            continue
        if not call_blocks(b, is_up):
            continue
        if b.get("impl_self") is None or b.ty(b.get("impl_self"))[3] != ANALYSIS:
            continue
        if call_blocks(b, is_clear):
            continue  # reindex shape, R09c
        n += 1
        name = short_m(b.id)
        must_precede(chk, b, rule, name + ":remove<update", is_rm, is_up,
                     "%s: update_index reachable without a preceding remove_index" % name)
        # the new content must be in the Vfs before the old facts are dropped and re-derived: no store is
        # reachable after remove_index/update_index (batch entry points store in a loop that may run 0 times,
        # so "store dominates remove" would be too strong)
        succ = b.succ_map()
        S = call_blocks(b, is_set)
        late = set()
        for x in call_blocks(b, is_rm) | call_blocks(b, is_up):
            late |= (cfgutil.reachable(succ, x) - {x}) & S
        delegating = call_blocks(b, lambda c: c.startswith(ANALYSIS + "::update_file"))
        chk.check((bool(S) or bool(delegating)) and not late, rule, name + ":store-first",
                  "%s: file content is stored after (or never before) remove_index/update_index" % name, b.loc(),
                  witness={"store_blocks_after_index_ops": sorted(late)},
                  sample={"rule": rule, "function": b.id, "verdict": "content stored before index ops"})
    return n


def reindex_order(chk, F, rule):
    b = F.bodies.get(ANALYSIS + "::reindex")
    if b is None:
        raise RuleBroken("EmmyLuaAnalysis::reindex not found")
    is_all = lambda c: c == VFS + "::get_all_file_ids"
    is_clear = lambda c: c == COMPILATION + "::clear_index"
    is_up = lambda c: c == COMPILATION + "::update_index"
    if not call_blocks(b, is_up) or not call_blocks(b, is_clear):
        chk.violation(rule, "reindex:shape", "reindex no longer calls clear_index and update_index", b.loc())
        return
    must_precede(chk, b, rule, "reindex:clear<update", is_clear, is_up,
                 "reindex: update_index reachable without clear_index")
    must_precede(chk, b, rule, "reindex:ids<clear", is_all, is_clear,
                 "reindex: the file list must be taken from the Vfs before the index is cleared")
    # every return is preceded by update_index
    succ = b.succ_map()
    p = cfgutil.paths_avoiding(succ, 0, set(b.returns()), call_blocks(b, is_up))
    chk.check(p is None, rule, "reindex:update-on-every-path", "reindex can return without update_index", b.loc(),
              witness={"path_blocks": p})
    # the Vec passed to update_index is the one returned by get_all_file_ids (followed through moves)
    src_bbs = {bb for bb, c in b.calls() if is_all(c.get("r") or c.get("f") or "")}
    ok = bool(src_bbs)
    args = []
    for bb, c in b.calls():
        if is_up(c.get("r") or c.get("f") or ""):
            l = dataflow.operand_local(c["a"][1])
            rs = dataflow.roots(b, l) if l is not None else set()
            args.append(sorted(map(str, rs)))
            ok = ok and bool(rs) and all(r[0] == "call" and r[1] in src_bbs for r in rs)
    chk.check(ok, rule, "reindex:all-files", "reindex does not hand the complete Vfs file list to update_index",
              b.loc(), witness={"update_index_arg_roots": args})
    # reload_workspace_files must end in reindex when files pre-existed: the call must be present
    r = F.bodies.get(ANALYSIS + "::reload_workspace_files")
    if r is None:
        raise RuleBroken("reload_workspace_files not found")
    ri = call_blocks(r, lambda c: c == ANALYSIS + "::reindex")
    chk.check(bool(ri), rule, "reload:reindex", "reload_workspace_files no longer reindexes", r.loc())
    if ri:
        is_upd = lambda c: c in (ANALYSIS + "::update_files_by_uri", ANALYSIS + "::update_files_by_path")
        succ = r.succ_map()
        # no update call may follow the reindex
        after = set()
        for x in ri:
            after |= cfgutil.reachable(succ, x) - {x}
        late = after & call_blocks(r, is_upd)
        chk.check(not late, rule, "reload:reindex-last", "reload_workspace_files updates files after reindex",
                  r.loc(), witness={"blocks": sorted(late)})


def remove_file_rule(chk, F, ws, rule):
    b = F.bodies.get(ANALYSIS + "::remove_file_by_uri")
    if b is None:
        raise RuleBroken("remove_file_by_uri not found")
    is_vr = lambda c: c == VFS + "::remove_file"
    is_rm = lambda c: c == COMPILATION + "::remove_index"
    A, B = call_blocks(b, is_vr), call_blocks(b, is_rm)
    chk.check(bool(A), rule, "remove_file_by_uri:vfs", "remove_file_by_uri does not call Vfs::remove_file", b.loc())
    chk.check(bool(B), rule, "remove_file_by_uri:index", "remove_file_by_uri does not call remove_index", b.loc())
    if A and B:
        must_precede(chk, b, rule, "remove_file_by_uri:vfs<index", is_vr, is_rm,
                     "remove_index reachable without Vfs::remove_file")
        # success path: from the Some-edge of remove_file's result every path to return passes remove_index.
        # Conservative shape test: every return reachable from a Vfs::remove_file call that constructs
        # `Some(..)` as the function result is preceded by remove_index.
        succ = b.succ_map()
        some_rets = set()
        for i, blk in enumerate(b.blocks):
            for st in blk[1]:
                if st[0] == "a" and st[1] == [0] and st[2][0] == "agg" and st[2][3] == "Some":
                    some_rets.add(i)
        p = cfgutil.paths_avoiding(succ, 0, some_rets, B) if some_rets else None
        chk.check(bool(some_rets) and p is None, rule, "remove_file_by_uri:some=>removed",
                  "remove_file_by_uri can report success without having removed the index facts", b.loc(),
                  witness={"path_blocks": p})
    # Vfs::remove_file field coverage
    ms = methods_of(F, VFS)
    rf = F.bodies.get(VFS + "::remove_file")
    if rf is None:
        raise RuleBroken("Vfs::remove_file not found")
    wrf = ws.writes(rf.id, 1)
    mut = {}
    for m in ms:
        if m.id in (rf.id, VFS + "::clear", VFS + "::new"):
            continue
        for f in ws.writes(m.id, 1):
            mut.setdefault(f, []).append(m.id)
    for f, writers in sorted(mut.items()):
        key = "Vfs.%s" % f
        if f in EXEMPT_VFS_REMOVE:
            chk.ok(rule, key, {"rule": rule, "field": key, "verdict": "exempt", "reason": EXEMPT_VFS_REMOVE[f]})
            continue
        chk.check(f in wrf, rule, key,
                  "Vfs field `%s` is written by %s but not by remove_file" % (f, [short_m(w) for w in writers[:3]]),
                  rf.loc(), witness={"W(remove_file)": sorted(wrf)},
                  sample={"rule": rule, "field": key, "verdict": "covered"})
    # set_file_content(None) (the text=None removal path of update_file_by_uri) must also drop tree and line index
    return len(mut)


def file_keyed_unconditional(chk, F, rule):
    """R08d: a field that is a map keyed by FileId holds per-file state directly: remove(file_id) must reach a mutable borrow
    of it on *every* path (an early return conditioned on other fields' content leaves the file's entry behind)."""
    import cfgutil as _c
    idx = index_types(F)
    n = 0
    for X, items in sorted(idx.items()):
        if X == DBINDEX:
            continue
        adt = F.adts.get(X)
        b = F.bodies.get(items["remove"])
        if adt is None or b is None:
            continue
        types = adt["_types"]
        succ = b.succ_map()
        rets = set(b.returns())
        for f in adt["variants"][0]["fields"]:
            t = types[f["ty"]]
            if t[2] != "adt" or not t[3].endswith(("::HashMap", "::BTreeMap")) or not t[4]:
                continue
            kt = types[t[4][0]]
            if not kt[0].endswith("vfs::file_id::FileId"):
                continue
            n += 1
            W = set()
            for bi, blk in enumerate(b.blocks):
                if blk[0]:
                    continue
                for st in blk[1]:
                    if st[0] == "a" and st[2][0] == "ref" and st[2][1] == "m" and st[2][2][0] == 1 and \
                            any(isinstance(e, list) and e[0] == "f" and e[2] == f["name"] for e in st[2][2][1:]):
                        W.add(bi)
            key = "%s.%s" % (short(X), f["name"])
            if not W:
                continue  # R08a reports a field that is never touched
            p = _c.paths_avoiding(succ, 0, rets, W)
            chk.check(p is None, rule, key,
                      "%s::remove can return without touching the FileId-keyed map `%s` (an early return that depends on other "
                      "state): the removed file's entry survives" % (short(X), f["name"]), b.loc(), witness={"path_blocks": p},
                      sample={"rule": rule, "field": key, "verdict": "reached on every path of remove"})
    return n


def file_valued_unconditional(chk, F, rule):
    """R08i: a map that is keyed by something else but whose values list FileIds (name -> files buckets) holds per-file state too:
    remove(file_id) must look at it on every path, except a path on which the lookup of the file in a FileId-keyed map missed (the
    file was never indexed).  An early exit of some other pruning step must not skip it."""
    import cfgutil as _c
    import dataflow as _d
    idx = index_types(F)
    n = 0
    for X, items in sorted(idx.items()):
        if X == DBINDEX:
            continue
        adt = F.adts.get(X)
        b = F.bodies.get(items["remove"])
        if adt is None or b is None:
            continue
        types = adt["_types"]
        succ = b.succ_map()
        rets = set(b.returns())
        fkeyed = set()
        for f in adt["variants"][0]["fields"]:
            t = types[f["ty"]]
            if t[2] == "adt" and t[3].endswith(("::HashMap", "::BTreeMap")) and t[4] and types[t[4][0]][0].endswith("vfs::file_id::FileId"):
                fkeyed.add(f["name"])
        # None edges of lookups in FileId-keyed maps
        none_targets = set()
        for bi, blk in enumerate(b.blocks):
            t = blk[2]
            if t[0] != "sw" or t[1][0] not in ("c", "m") or len(t[1][1]) != 1:
                continue
            for d in _d.def_sites(b).get(t[1][1][0], []):
                if not (d[0] == "stmt" and d[3][0] == "disc"):
                    continue
                pl = d[3][1]
                for r in _d.roots(b, pl[0]):
                    if r[0] != "call":
                        continue
                    c = b.blocks[r[1]][2][1]
                    nm = c.get("r") or c.get("f") or ""
                    if not nm.endswith(("::remove", "::get", "::get_mut")) or not c["a"]:
                        continue
                    la = _d.operand_local(c["a"][0])
                    for r2 in _d.roots(b, la) if la is not None else ():
                        if r2[0] == "place" and any(isinstance(e, (list, tuple)) and e[0] == "f" and e[2] in fkeyed for e in r2[2]):
                            tg = [tb for v, tb in t[2] if v == 0]
                            none_targets.add(tg[0] if tg else t[3])
        for f in adt["variants"][0]["fields"]:
            t = types[f["ty"]]
            if t[2] != "adt" or not t[3].endswith(("::HashMap", "::BTreeMap")) or len(t[4]) < 2:
                continue
            if types[t[4][0]][0].endswith("vfs::file_id::FileId") or "vfs::file_id::FileId" not in types[t[4][1]][0]:
                continue
            if "InFiled<" in types[f["ty"]][0]:
                continue      # R08e
            n += 1
            W = set()
            for bi, blk in enumerate(b.blocks):
                if blk[0]:
                    continue
                for st in blk[1]:
                    if st[0] == "a" and st[2][0] == "ref" and st[2][2][0] == 1 and \
                            any(isinstance(e, list) and e[0] == "f" and e[2] == f["name"] for e in st[2][2][1:]):
                        W.add(bi)
            key = "%s.%s" % (short(X), f["name"])
            if not W:
                continue  # R08a reports a field that is never touched
            p = _c.paths_avoiding(succ, 0, rets, W | none_targets)
            chk.check(p is None, rule, key,
                      "%s::remove can return without looking at `%s` (a map whose values list file ids) although the file was found in the "
                      "index: an early exit of another pruning step skips it, the removed file's id stays listed there and the bucket grows by "
                      "one entry on every re-submission of the file" % (short(X), f["name"]), b.loc(), witness={"path_blocks": p},
                      sample={"rule": rule, "field": key, "verdict": "looked at on every path on which the file was indexed"})
    return n


def infiled_filtered(chk, F, rule):
    """R08e: a field whose keys or values carry their own file attribution (InFiled<..>) mixes entries of several files under one
    key, so remove(file_id) must filter it with a `retain` that looks at the file id -- and when that retain sits in the loop
    over the removed file's ids it must run on every iteration (it may only be bypassed when the lookup of the entry misses)."""
    import cfgutil as _c
    import dataflow as _d
    idx = index_types(F)
    n = 0
    for X, items in sorted(idx.items()):
        adt = F.adts.get(X)
        b = F.bodies.get(items.get("remove", ""))
        if adt is None or b is None or X == DBINDEX:
            continue
        types = adt["_types"]
        for f in adt["variants"][0]["fields"]:
            if "InFiled<" not in types[f["ty"]][0]:
                continue
            n += 1
            key = "%s.%s" % (short(X), f["name"])
            # mutable borrows of the field and everything derived from them (get_mut results, payloads)
            derived = set()
            for blk in b.blocks:
                for st in blk[1]:
                    if st[0] == "a" and st[2][0] == "ref" and st[2][1] == "m" and st[2][2][0] == 1 and len(st[1]) == 1 and \
                            any(isinstance(e, list) and e[0] == "f" and e[2] == f["name"] for e in st[2][2][1:]):
                        derived.add(st[1][0])
            changed = True
            lookups = set()
            while changed:
                changed = False
                for bi, blk in enumerate(b.blocks):
                    for st in blk[1]:
                        if st[0] == "a" and len(st[1]) == 1 and st[1][0] not in derived:
                            rv = st[2]
                            src = rv[2] if rv[0] == "ref" else (rv[1][1] if rv[0] == "use" and rv[1][0] in ("c", "m") else None)
                            if src and src[0] in derived:
                                derived.add(st[1][0])
                                changed = True
                    t = blk[2]
                    if t[0] == "call" and len(t[1]["d"]) == 1 and t[1]["d"][0] not in derived and \
                            any(a[0] in ("c", "m") and a[1][0] in derived for a in t[1]["a"][:1]):
                        derived.add(t[1]["d"][0])
                        if (t[1].get("r") or t[1].get("f") or "").endswith(("::get_mut", "::get")):
                            lookups.add(bi)
                        changed = True
            retains = {bi for bi, c in b.calls() if (c.get("r") or c.get("f") or "").endswith("::retain") and c["a"] and
                       c["a"][0][0] in ("c", "m") and c["a"][0][1][0] in derived}
            def captures_file_id(c):
                # the predicate closure must capture remove's file_id parameter (local 2), directly or by reference
                if len(c["a"]) < 2 or c["a"][1][0] not in ("c", "m"):
                    return False
                for d in _d.def_sites(b).get(c["a"][1][1][0], []):
                    if d[0] == "stmt" and d[3][0] == "agg" and d[3][1] == "closure":
                        for op in d[3][4]:
                            if op[0] in ("c", "m"):
                                seen, todo = set(), [op[1][0]]
                                while todo:
                                    x = todo.pop()
                                    if x == 2:
                                        return True
                                    if x in seen:
                                        continue
                                    seen.add(x)
                                    for d2 in _d.def_sites(b).get(x, []):
                                        if d2[0] == "stmt" and d2[3][0] in ("ref", "use"):
                                            src = d2[3][2] if d2[3][0] == "ref" else (d2[3][1][1] if d2[3][1][0] in ("c", "m") else None)
                                            if src:
                                                todo.append(src[0])
                return False
            retains = {bi for bi in retains if captures_file_id(b.blocks[bi][2][1])}
            if not retains:
                chk.violation(rule, key, "%s::remove never filters `%s` by file id (no retain on it): entries contributed by the removed "
                              "file stay under keys that other files keep alive" % (short(X), f["name"]), b.loc())
                continue
            succ = b.succ_map()
            loops = _c.natural_loops(succ, 0)
            ok = True
            wit = None
            for h, body in loops.items():
                rs = retains & body
                if not rs:
                    continue
                # None-edges of the lookups of this field inside the loop may bypass the retain
                bypass = set()
                for lb in lookups & body:
                    nxt = b.blocks[lb][2][1]["t"]
                    for _ in range(3):
                        t = b.blocks[nxt][2]
                        if t[0] == "sw":
                            bypass |= {tb for v, tb in t[2] if v != 1}   # every edge but the Some edge
                            if not any(v == 0 for v, tb in t[2]):
                                bypass.add(t[3])
                            break
                        if t[0] in ("goto", "fe", "fu"):
                            nxt = t[1]
                        else:
                            break
                sub = {x: [y for y in succ[x] if y in body] for x in body}
                for s0 in sub[h]:
                    p = _c.paths_avoiding(sub, s0, {h}, rs | bypass)
                    if p is not None and len(p) > 1:
                        ok = False
                        wit = [h] + p
            chk.check(ok, rule, key,
                      "%s::remove filters `%s` by file id only on some iterations of its loop over the removed file's ids (a "
                      "`continue`/branch skips the retain): entries of the removed file survive for ids that stay alive" % (short(X), f["name"]),
                      b.loc(), witness={"cycle_blocks": wit},
                      sample={"rule": rule, "field": key, "verdict": "filtered by file id on every iteration"})
    return n


# ---- R08f: reverse maps that drive removal are complete --------------------------------------------------------------
INSERTING = ("::insert", "::entry", "::push", "::extend", "::or_insert", "::or_default", "::or_insert_with", "::push_back", "::append")
# (index, driven field, method) -> reason: inserts whose per-file registration happens in a sibling call of the same analyzer step
REVERSE_MAP_EXEMPT = {
    ("LuaTypeIndex", "generic_params", "add_generic_params"):
        "keyed by a LuaTypeDeclId the same file registered through add_type_decl (decl analyzer creates the decl before the "
        "doc analyzer attaches generic params to it); removal of the last location drops the entry",
    ("LuaTypeIndex", "supers", "add_super_type"):
        "keyed by a LuaTypeDeclId the same file registered through add_type_decl; each element carries its own file id and is "
        "filtered by R08e",
}


def _cname(c):
    return c.get("r") or c.get("f") or ""


def _self_field_borrows(b):
    """field name -> locals holding `&mut self.<field>`"""
    out = {}
    for blk in b.blocks:
        for st in blk[1]:
            if st[0] == "a" and st[2][0] == "ref" and st[2][1] == "m" and st[2][2][0] == 1 and len(st[1]) == 1:
                for e in st[2][2][1:]:
                    if isinstance(e, list) and e[0] == "f":
                        out.setdefault(e[2], set()).add(st[1][0])
                        break
    return out


def _derived(b, seeds):
    d = set(seeds)
    changed = True
    while changed:
        changed = False
        for blk in b.blocks:
            for st in blk[1]:
                if st[0] == "a" and len(st[1]) == 1 and st[1][0] not in d:
                    rv = st[2]
                    src = rv[2] if rv[0] == "ref" else (rv[1][1] if rv[0] == "use" and rv[1][0] in ("c", "m") else None)
                    if src and src[0] in d:
                        d.add(st[1][0])
                        changed = True
            t = blk[2]
            if t[0] == "call" and len(t[1]["d"]) == 1 and t[1]["d"][0] not in d and \
                    any(a[0] in ("c", "m") and a[1][0] in d for a in t[1]["a"][:1]):
                d.add(t[1]["d"][0])
                changed = True
    return d


def reverse_map_pairs(b):
    """(R, M): remove takes self.R.remove(..) and loops over what it got, mutably borrowing self.M inside that loop"""
    import cfgutil as _c
    succ = b.succ_map()
    loops = _c.natural_loops(succ, 0)
    fb = _self_field_borrows(b)
    per_block = {}
    for bi, blk in enumerate(b.blocks):
        for st in blk[1]:
            if st[0] == "a" and st[2][0] == "ref" and st[2][1] == "m" and st[2][2][0] == 1:
                for e in st[2][2][1:]:
                    if isinstance(e, list) and e[0] == "f":
                        per_block.setdefault(bi, set()).add(e[2])
                        break
    out = set()
    for r, ls in fb.items():
        if not any(_cname(c).endswith("::remove") and c["a"] and c["a"][0][0] in ("c", "m") and c["a"][0][1][0] in ls
                   for _, c in b.calls()):
            continue
        d = _derived(b, ls)
        for h, body in loops.items():
            if not any(bi in body and _cname(c).endswith("::next") and c["a"] and c["a"][0][0] in ("c", "m") and
                       c["a"][0][1][0] in d for bi, c in b.calls()):
                continue
            for bi in body:
                for f in per_block.get(bi, ()):
                    if f != r:
                        out.add((r, f))
    return out


def _insert_blocks(b, f):
    ls = _self_field_borrows(b).get(f)
    if not ls:
        return set()
    d = _derived(b, ls)
    return {bi for bi, c in b.calls() if _cname(c).endswith(INSERTING) and c["a"] and c["a"][0][0] in ("c", "m") and
            c["a"][0][1][0] in d}


def reverse_map_complete(chk, F, rule):
    """R08f: when remove(file_id) finds the entries of a map M through a per-file reverse map R (it loops over
    self.R.remove(&file_id)), whatever inserts into M must register in R on every non-failing path -- otherwise the entry is
    invisible to remove and survives its file.  Failure exits (`?` residuals) are exempt; private helpers are judged at
    their callers."""
    import cfgutil as _c
    idx = index_types(F)
    npairs = 0
    for X, items in sorted(idx.items()):
        rb = F.bodies.get(items.get("remove", ""))
        if F.adts.get(X) is None or rb is None or X == DBINDEX:
            continue
        pairs = reverse_map_pairs(rb)
        if not pairs:
            continue
        ms = [b for b in methods_of(F, X) if b.id not in (items.get("remove"), items.get("clear"))]
        mids = {b.id for b in ms}

        def exits(b):
            succ = b.succ_map()
            resid = {bi for bi, c in b.calls() if "FromResidual" in _cname(c)}
            sub = [list(v) if k not in resid else [] for k, v in enumerate(succ)]
            return set(b.returns()) & _c.reachable(sub, 0), resid

        for (r, m) in sorted(pairs):
            npairs += 1
            must_r = set()
            for _ in range(4):
                for b in ms:
                    ri = _insert_blocks(b, r) | {bi for bi, c in b.calls() if _cname(c) in must_r}
                    if not ri:
                        continue
                    okr, resid = exits(b)
                    succ = b.succ_map()
                    sub = [[y for y in v if y not in ri and y not in resid] if k not in ri else [] for k, v in enumerate(succ)]
                    if 0 in ri or not (_c.reachable(sub, 0) & okr):
                        must_r.add(b.id)
            incomplete = {}
            for _ in range(6):
                changed = False
                for b in ms:
                    if b.id in incomplete:
                        continue
                    mi = _insert_blocks(b, m) | {bi for bi, c in b.calls() if _cname(c) in incomplete}
                    if not mi:
                        continue
                    ri = _insert_blocks(b, r) | {bi for bi, c in b.calls() if _cname(c) in must_r}
                    okr, resid = exits(b)
                    succ = b.succ_map()
                    sub = [[y for y in v if y not in ri and y not in resid] if k not in ri else [] for k, v in enumerate(succ)]
                    reach0 = _c.reachable(sub, 0)
                    for x in sorted(mi - ri):
                        if x in reach0 and (_c.reachable(sub, x) & okr):
                            incomplete[b.id] = x
                            changed = True
                            break
                if not changed:
                    break
            # a non-public helper is fine when every caller lives in this impl (then the caller was judged above)
            callers = {}
            for b2 in F.bodies.values():
                for _, c in b2.calls():
                    if _cname(c) in incomplete:
                        callers.setdefault(_cname(c), set()).add(b2.id)
            for b in ms:
                inserts = bool(_insert_blocks(b, m)) or b.id in incomplete
                if not inserts:
                    continue
                key = "%s.%s<-%s via %s" % (short(X), m, short(b.id), r)
                if b.id not in incomplete:
                    chk.ok(rule, key, {"rule": rule, "site": b.loc(), "verdict": "registers in `%s` on every non-failing path that inserts into `%s`" % (r, m)})
                    continue
                if b.get("vis") != "pub" and callers.get(b.id) and callers[b.id] <= mids:
                    chk.ok(rule, key, {"rule": rule, "site": b.loc(), "verdict": "non-public helper; every caller is a method of the same index and is judged itself"})
                    continue
                ex = REVERSE_MAP_EXEMPT.get((short(X), m, short(b.id)))
                if ex:
                    chk.ok(rule, key, {"rule": rule, "site": b.loc(), "verdict": "exempt", "reason": ex})
                    continue
                chk.violation(rule, key,
                              "%s::%s can insert into `%s` and return without registering in the per-file reverse map `%s`, which is the "
                              "only way %s::remove finds entries of `%s`: such an entry survives the removal of its file"
                              % (short(X), short(b.id), m, r, short(X), m),
                              b.loc(), witness={"insert_block": incomplete[b.id], "reverse_map": r, "driven_field": m})
    return npairs


def fresh_ids(chk, F, ws, rule):
    """R08g: a key under which an index inserts must not be computed from the current size of a container that remove() shrinks:
    after one file is removed the size falls below ids that are still alive, and the next insert lands on another file's entry."""
    idx = index_types(F)
    n = 0
    for X, items in sorted(idx.items()):
        rb = F.bodies.get(items.get("remove", ""))
        if F.adts.get(X) is None or rb is None or X == DBINDEX:
            continue
        shrunk = set(_self_field_borrows(rb))          # fields remove() borrows mutably
        for b in methods_of(F, X):
            if b.id in (items.get("remove"), items.get("clear")):
                continue
            # locals holding &self.f / &mut self.f for shrinking fields
            src = {}
            for blk in b.blocks:
                for st in blk[1]:
                    if st[0] == "a" and st[2][0] == "ref" and st[2][2][0] == 1 and len(st[1]) == 1:
                        for e in st[2][2][1:]:
                            if isinstance(e, list) and e[0] == "f":
                                if e[2] in shrunk:
                                    src[st[1][0]] = e[2]
                                break
            lens = [(bi, c, src[c["a"][0][1][0]]) for bi, c in b.calls() if _cname(c).endswith("::len") and c["a"] and
                    c["a"][0][0] in ("c", "m") and c["a"][0][1][0] in src and len(c["d"]) == 1]
            keys = [(bi, c) for bi, c in b.calls() if _cname(c).endswith(("::insert", "::entry")) and len(c["a"]) >= 2]
            if not keys:
                continue
            n += 1
            bad = None
            for bi, c, fld in lens:
                t = {c["d"][0]}
                changed = True
                while changed:
                    changed = False
                    for blk in b.blocks:
                        for st in blk[1]:
                            if st[0] == "a" and len(st[1]) == 1 and st[1][0] not in t and \
                                    any(isinstance(x, list) and x and x[0] in ("c", "m") and x[1][0] in t for x in _flat_ops(st[2])):
                                t.add(st[1][0])
                                changed = True
                        tt = blk[2]
                        if tt[0] == "call" and len(tt[1]["d"]) == 1 and tt[1]["d"][0] not in t and \
                                any(a[0] in ("c", "m") and a[1][0] in t for a in tt[1]["a"]) and \
                                not _cname(tt[1]).endswith(("::insert", "::entry", "::get", "::get_mut", "::contains_key")):
                            t.add(tt[1]["d"][0])
                            changed = True
                for kb, kc in keys:
                    a = kc["a"][1]
                    if a[0] in ("c", "m") and a[1][0] in t:
                        bad = (fld, kc["l"])
            key = "%s::%s" % (short(X), short(b.id))
            chk.check(bad is None, rule, key,
                      "%s derives the key of an insert from `%s.len()`, and %s::remove shrinks `%s`: after a removal the next key "
                      "collides with an entry that is still alive (ids must come from a counter that never goes back)"
                      % (key, bad[0] if bad else "", short(X), bad[0] if bad else ""),
                      b.loc(bad[1] if bad else None), witness={"field": bad[0] if bad else None},
                      sample={"rule": rule, "method": key, "verdict": "no insert key derives from the size of a shrinking container"})
    return n


def _flat_ops(rv):
    out = []
    for x in rv[1:]:
        if isinstance(x, list):
            if x and x[0] in ("c", "m", "k"):
                out.append(x)
            else:
                for y in x:
                    if isinstance(y, list) and y and y[0] in ("c", "m", "k"):
                        out.append(y)
    return out


def prune_emptied(chk, F, rule):
    """R08h: when remove() filters an inner collection (a value reached through get_mut / values_mut / iter_mut of a map) it must then test
    that collection for emptiness (and drop the key): consumers ask `map.get(k).is_some()` / `is_none()` to decide whether anything is
    registered, so an emptied list left behind reads as "still there"."""
    import cfgutil as _c
    import dataflow as _d
    idx = index_types(F)

    def inner_value(b, op, depth=0):
        l = _d.operand_local(op)
        if l is None or depth > 6:
            return False
        for r in _d.roots(b, l):
            if r[0] == "call":
                c = b.blocks[r[1]][2][1]
                n = _cname(c)
                if n.endswith(("::get_mut", "::values_mut", "::iter_mut")):
                    return True
                if n.endswith(("::next", "Try>::branch", "::unwrap", "DerefMut>::deref_mut", "IntoIterator>::into_iter", "::by_ref")) and c["a"] and \
                        inner_value(b, c["a"][0], depth + 1):
                    return True
            if r[0] == "place" and r[1] != l and r[1] != 1:
                if inner_value(b, ["c", [r[1]]], depth + 1):
                    return True
        return False

    def rk(b, op):
        l = _d.operand_local(op)
        return frozenset(_d.roots(b, l)) if l is not None else frozenset()

    def keyed_lookup(b, op, depth=0):
        """the get_mut(map, key) call the inner value was obtained from, if it is a keyed lookup"""
        l = _d.operand_local(op)
        if l is None or depth > 6:
            return None
        for r in _d.roots(b, l):
            if r[0] == "call":
                c = b.blocks[r[1]][2][1]
                n = _cname(c)
                if n.endswith("::get_mut") and len(c["a"]) >= 2:
                    return c
                if n.endswith(("::next", "Try>::branch", "::unwrap", "DerefMut>::deref_mut", "IntoIterator>::into_iter", "::by_ref")) and c["a"]:
                    x = keyed_lookup(b, c["a"][0], depth + 1)
                    if x is not None:
                        return x
            if r[0] == "place" and r[1] != l and r[1] != 1:
                x = keyed_lookup(b, ["c", [r[1]]], depth + 1)
                if x is not None:
                    return x
        return None

    def field_of(b, op):
        l = _d.operand_local(op)
        out = set()
        for r in _d.roots(b, l) if l is not None else ():
            if r[0] == "place":
                out |= {e[2] for e in r[2] if isinstance(e, (list, tuple)) and e[0] == "f" and len(e) > 2}
        return out

    def key_roots(b, op):
        """roots of a key operand, looking through the `&key` temporary"""
        l = _d.operand_local(op)
        out = set()
        for r in _d.roots(b, l) if l is not None else ():
            if r[0] == "place" and not r[2]:
                out |= set(_d.roots(b, r[1]))
            elif r[0] == "place":
                out.add((r[0], r[1], tuple(e for e in r[2] if e != "*")))
            else:
                out.add(r)
        return frozenset(out)
    n = 0
    for X, items in sorted(idx.items()):
        b = F.bodies.get(items.get("remove", ""))
        if b is None or X == DBINDEX:
            continue
        succ = b.succ_map()
        k = 0
        for bb, c in b.calls():
            if not _cname(c).endswith("::retain") or not c["a"] or not inner_value(b, c["a"][0]):
                continue
            n += 1
            k += 1
            key = "%s::remove:retain#%d" % (short(X), k)
            root = rk(b, c["a"][0])
            after = _c.reachable(succ, bb)
            emp = [x for x, cc in b.calls() if _cname(cc).endswith("::is_empty") and cc["a"] and rk(b, cc["a"][0]) == root and x in after]
            pruned = any(any(_cname(cc).endswith("::remove") and y in _c.reachable(succ, x) for y, cc in b.calls()) for x in emp)
            lk = keyed_lookup(b, c["a"][0])
            if pruned and lk is not None:
                # keyed lookup: the key that is dropped must be the key whose entry was emptied (same map, same key)
                mf, kr = field_of(b, lk["a"][0]), key_roots(b, lk["a"][1])
                same = [cc for x in emp for y, cc in b.calls() if _cname(cc).endswith("::remove") and y in _c.reachable(succ, x)
                        and len(cc["a"]) >= 2 and field_of(b, cc["a"][0]) & mf and key_roots(b, cc["a"][1]) == kr]
                chk.check(bool(same), rule, key + ":same-key",
                          "%s::remove empties an inner collection of the entry it looked up (retain + is_empty) but the removal that follows drops "
                          "a different key of that map: the emptied entry itself is only unlinked, stays in the map and one more is left behind "
                          "on every re-submission of the file" % short(X), b.loc(c["l"]),
                          sample={"rule": rule, "site": key, "verdict": "the emptied entry's own key is removed"})
            chk.check(bool(emp) and pruned, rule, key,
                      "%s::remove filters an inner collection with retain and never tests it for emptiness afterwards (no is_empty on it followed by a "
                      "removal of the key): an emptied list stays in the map, and code that asks whether the key is present (`get(..).is_some()`) "
                      "takes the removed file's contribution for still being there" % short(X), b.loc(c["l"]),
                      sample={"rule": rule, "site": key, "verdict": "emptied entries are pruned"})
    return n


def run_c08(chk, F, tier):
    chk.rule("R08a", "for every impl LuaIndex for X: fields written by any &mut-self method of X are written by "
                     "`remove` or exempt (id allocators, configuration mirrors; table in rules/idx.py)")
    chk.rule("R08b", "DbIndex::remove calls <FieldTy as LuaIndex>::remove on every LuaIndex field on every path")
    chk.rule("R08c", "update entry points store the content, then remove_index, then update_index on every path")
    chk.assume("shared borrows do not write (no interior mutability inside index types; C38 checks Sync by auto traits)")
    chk.assume("decides coverage of state by removal, not that the pruning logic inside remove() is correct")
    ws = effects.WriteSets(F)
    idx = index_types(F)
    chk.floor("LuaIndex impls", len(idx), 15)
    nf = 0
    nm = 0
    for X, items in sorted(idx.items()):
        if X == DBINDEX:
            continue
        a, m = coverage(chk, F, ws, X, items, EXEMPT_REMOVE, "R08a", "remove")
        nf += a
        nm += m
    chk.floor("index fields with writers", nf, 40)
    chk.unit("index methods analysed", nm)
    n = delegation(chk, F, "R08b", "remove")
    chk.floor("DbIndex LuaIndex fields", n, 14)
    n = ordering(chk, F, "R08c")
    chk.floor("update entry points", n, 3)
    chk.rule("R08d", "maps keyed by FileId are reached by remove(file_id) on every path")
    n = file_keyed_unconditional(chk, F, "R08d")
    chk.rule("R08i", "maps whose values list FileIds are looked at by remove(file_id) on every path on which the file was indexed")
    ni = file_valued_unconditional(chk, F, "R08i")
    chk.floor("maps with FileId-listing values", ni, 1)
    chk.floor("FileId-keyed index maps", n, 12)
    chk.rule("R08e", "InFiled-attributed entries are filtered by file id on every iteration of remove's loop")
    n = infiled_filtered(chk, F, "R08e")
    chk.floor("InFiled-attributed index maps", n, 2)
    chk.rule("R08f", "inserts into a map that remove() finds through a per-file reverse map register in that reverse map on every non-failing path")
    n = reverse_map_complete(chk, F, "R08f")
    chk.floor("reverse-map/driven-map pairs", n, 9)
    chk.rule("R08h", "remove() prunes the map entries whose inner collection it emptied")
    n = prune_emptied(chk, F, "R08h")
    chk.floor("inner-collection retains in remove()", n, 2)
    chk.rule("R08g", "no insert key of an index is computed from the size of a container that remove() shrinks")
    n = fresh_ids(chk, F, ws, "R08g")
    chk.floor("index methods with keyed inserts", n, 20)
    chk.explanation = ("Write-set analysis over MIR of every method of every LuaIndex implementor: a field that the "
                       "add path can populate must be reachable by remove(file_id); delegation and call order are "
                       "checked on the CFG with must-pass-through. Decides coverage only, not pruning logic.")


def config_preserved(chk, F, ws, rule):
    """R09d: configuration mirrors / workspace roots are inputs of the analysis: clear() must leave them alone.
    A clear() written as `*self = Self { f: take(&mut self.f), ..Self::new() }` must carry every such field over."""
    import prov
    idx = index_types(F)
    n = 0
    for (sx, f), reason in sorted(EXEMPT_CLEAR.items()):
        if "allocator" in reason:
            continue
        X = [x for x in idx if short(x) == sx]
        if not X:
            raise RuleBroken("exempt type %s not found" % sx)
        X = X[0]
        cid = idx[X]["clear"]
        b = F.bodies[cid]
        w = ws.writes(cid, 1)
        n += 1
        key = "%s.%s" % (sx, f)
        if "*" not in w:
            chk.check(f not in w, rule, key,
                      "clear() writes the configuration field `%s` of %s (%s): a reindex would silently change the "
                      "configuration the analysis runs under" % (f, sx, reason), b.loc(),
                      sample={"rule": rule, "field": key, "verdict": "untouched by clear"})
            continue
        # whole-object assignment: the aggregate operand of f must derive from the old value of self.f
        names = [x[0] for x in field_names(F, X)]
        P = prov.Prov(F, source=lambda bb_, r: ({("OLD", [e[2] for e in r[2] if isinstance(e, tuple) and e[0] == "f"][0])}
                                              if r[0] == "place" and r[1] == 1 and any(isinstance(e, tuple) and e[0] == "f" for e in r[2]) else None))
        ok = False
        seen = False
        for blk in b.blocks:
            for st in blk[1]:
                if st[0] == "a" and st[2][0] == "agg" and st[2][1] == "adt" and st[2][2] == X:
                    seen = True
                    op = st[2][4][names.index(f)]
                    ok = ("OLD", f) in P.operand_labels(b, op)
        chk.check(seen and ok, rule, key,
                  "clear() rebuilds %s as a whole but does not carry over the configuration field `%s` (%s): every "
                  "reindex resets it until the next update_config" % (sx, f, reason), b.loc(),
                  sample={"rule": rule, "field": key, "verdict": "carried over by the whole-object rebuild"})
    return n


def file_list_order(chk, F, rule):
    """R09e: the file list that reindex re-adds is in ascending file-id order, the order in which a fresh analysis received the files:
    Vfs::get_all_file_ids / get_all_local_file_ids enumerate `file_data` (the Vec indexed by file id) or sort their result."""
    import dataflow
    name = lambda c: c.get("r") or c.get("f") or ""
    chk.rule(rule, "Vfs::get_all_file_ids / get_all_local_file_ids list the files in ascending id order (an enumerate() over the id-indexed "
                   "`file_data`, or a sorted result): reindex then analyses the files in the order a fresh analysis saw them")
    n = 0
    for fn in ("get_all_file_ids", "get_all_local_file_ids"):
        b = F.bodies.get("emmylua_code_analysis::vfs::Vfs::" + fn)
        if b is None:
            raise RuleBroken("Vfs::%s not found" % fn)
        n += 1

        def chain(l, seen, depth=0):
            """(fields the iterator chain starts from, adaptor names on the way)"""
            flds, ads = set(), set()
            if l in seen or depth > 12:
                return flds, ads
            seen.add(l)
            for r in dataflow.roots(b, l):
                if r[0] == "call":
                    c = b.blocks[r[1]][2][1]
                    ads.add(name(c).split("::")[-1])
                    if c["a"]:
                        la = dataflow.operand_local(c["a"][0])
                        if la is not None:
                            f2, a2 = chain(la, seen, depth + 1)
                            flds |= f2
                            ads |= a2
                elif r[0] == "place":
                    fs = [e[2] for e in r[2] if isinstance(e, (list, tuple)) and e[0] == "f" and len(e) > 2]
                    flds |= set(fs) if fs else {"?"}
                    if not fs:
                        f2, a2 = chain(r[1], seen, depth + 1)
                        flds |= f2
                        ads |= a2
                elif r[0] == "agg":
                    # e.g. `0..self.file_data.len()`: look at the operands of the aggregate
                    st = b.blocks[r[1]][1][r[2]]
                    for op in st[2][4]:
                        lo = dataflow.operand_local(op)
                        if lo is not None:
                            f2, a2 = chain(lo, seen, depth + 1)
                            flds |= f2
                            ads |= a2
                elif r[0] != "const":
                    flds.add("?" + r[0])
            return flds, ads
        flds, ads = chain(0, set())
        sorts = [c["l"] for bb, c in b.calls() if name(c).split("::")[-1].startswith(("sort", "sort_unstable"))]
        # file_data is the Vec indexed by file id: any forward iteration over it (iter/enumerate/index range) is in id order
        ok = bool(sorts) or (flds == {"file_data"} and "rev" not in ads)
        chk.check(ok, rule, "vfs-order:" + fn,
                  "Vfs::%s no longer lists the files by enumerating the id-indexed `file_data` (sources: %s) and does not sort its result: the "
                  "order depends on the history of adds/removes, reindex analyses the files in that order and order-sensitive facts (which "
                  "declaration of a global comes first) differ from a fresh analysis" % (fn, sorted(flds)), b.loc(),
                  witness={"sources": sorted(flds), "adaptors": sorted(ads)},
                  sample={"rule": rule, "fn": fn, "verdict": "ascending id order"})
    return n


def config_setters_unconditional(chk, F, idx, rule):
    """R09f: a setter of a configuration-mirror field (the fields clear() deliberately keeps) writes it on every path: the mirror always
    equals the configuration last pushed by update_config, which is what reindex relies on when it keeps those fields."""
    chk.rule(rule, "every method that directly writes a configuration-mirror field of an index writes it on every path from entry to return "
                   "(no 'unchanged, skip' early return): reindex keeps these fields and relies on them being current")
    n = 0
    for (sx, f), reason in sorted(EXEMPT_CLEAR.items()):
        if "configuration mirror" not in reason:
            continue
        X = [x for x in idx if short(x) == sx]
        if not X:
            raise RuleBroken("exempt type %s not found" % sx)
        X = X[0]
        for b in F.bodies.values():
            if b.kind != "fn" or b.get("impl_self") is None or b.ty(b.get("impl_self"))[3] != X or b.id == idx[X]["clear"]:
                continue
            if b.argc < 1 or not b.local_ty_str(1).startswith("&mut "):
                continue
            if short(b.id) in ("new", "default"):
                continue
            wblocks = set()
            for bi, blk in enumerate(b.blocks):
                if blk[0]:
                    continue
                for st in blk[1]:
                    if st[0] != "a":
                        continue
                    for place, is_w in ((st[1], True), (st[2][2] if st[2][0] == "ref" and st[2][1] == "m" else None, True)):
                        if place is None or len(place) < 3 or place[0] != 1 or place[1] != "*":
                            continue
                        e = place[2]
                        if isinstance(e, list) and e[0] == "f" and e[2] == f:
                            wblocks.add(bi)
            if not wblocks:
                continue
            n += 1
            p = cfgutil.paths_avoiding(b.succ_map(), 0, set(b.returns()), wblocks)
            chk.check(p is None, rule, "%s.%s@%s" % (sx, f, short(b.id)),
                      "%s::%s writes the configuration mirror `%s` but has a path to its return that leaves the old value in place: after a "
                      "configuration change that path keeps stale settings, which reindex (clear() keeps this field by design) then analyses under"
                      % (sx, short(b.id), f), b.loc(), witness={"path_blocks": p},
                      sample={"rule": rule, "setter": "%s::%s" % (sx, short(b.id)), "field": f, "verdict": "written on every path"})
    chk.floor("configuration-mirror setters", n, 2)
    return n


def run_c09(chk, F, tier):
    chk.rule("R09a", "for every impl LuaIndex for X: fields written by any &mut-self method are written by `clear` "
                     "(exempt: configuration mirrors and workspace roots, which are inputs)")
    chk.rule("R09b", "DbIndex::clear delegates to every LuaIndex field on every path")
    chk.rule("R09c", "reindex = get_all_file_ids -> clear_index -> update_index(all); reload ends in reindex")
    chk.assume("shared borrows do not write")
    chk.assume("decides that no index field survives clear(); equality of reindexed and fresh results is not decided")
    ws = effects.WriteSets(F)
    idx = index_types(F)
    chk.floor("LuaIndex impls", len(idx), 15)
    nf = 0
    for X, items in sorted(idx.items()):
        if X == DBINDEX:
            continue
        a, m = coverage(chk, F, ws, X, items, EXEMPT_CLEAR, "R09a", "clear")
        nf += a
    chk.floor("index fields with writers", nf, 40)
    n = delegation(chk, F, "R09b", "clear")
    chk.floor("DbIndex LuaIndex fields", n, 14)
    reindex_order(chk, F, "R09c")
    file_list_order(chk, F, "R09e")
    config_setters_unconditional(chk, F, idx, "R09f")
    chk.rule("R09d", "clear() preserves the configuration mirrors and workspace roots (inputs, not facts)")
    n = config_preserved(chk, F, ws, "R09d")
    chk.floor("configuration fields", n, 4)
    chk.explanation = ("Write-set analysis: every index field the analysis can populate is reset by clear(); "
                       "DbIndex::clear reaches every index; reindex clears before re-adding the full Vfs file list.")


def run_c10(chk, F, tier):
    chk.rule("R08a/R08b", "removal coverage and delegation as in C08")
    chk.rule("R10", "remove_file_by_uri = Vfs::remove_file then remove_index on the success path; "
                    "Vfs::remove_file writes every per-file field of Vfs")
    chk.assume("decides that removal reaches every per-file store; cross-file liveness logic inside remove() is not decided")
    ws = effects.WriteSets(F)
    idx = index_types(F)
    chk.floor("LuaIndex impls", len(idx), 15)
    nf = 0
    for X, items in sorted(idx.items()):
        if X == DBINDEX:
            continue
        a, m = coverage(chk, F, ws, X, items, EXEMPT_REMOVE, "R08a", "remove")
        nf += a
    chk.floor("index fields with writers", nf, 40)
    n = delegation(chk, F, "R08b", "remove")
    chk.floor("DbIndex LuaIndex fields", n, 14)
    file_keyed_unconditional(chk, F, "R08d")
    infiled_filtered(chk, F, "R08e")
    reverse_map_complete(chk, F, "R08f")
    prune_emptied(chk, F, "R08h")
    n = remove_file_rule(chk, F, ws, "R10")
    chk.floor("Vfs fields with writers", n, 6)
    chk.explanation = ("Removal coverage (write sets), delegation (must-pass-through) and the Vfs removal path.")
