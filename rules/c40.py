"""C40 (panic surface + output sanitisation of the JSON-schema converter).

R40a  panic surface of schema_to_emmylua (SchemaConverter::convert / convert_from_str and everything they reach).
R40b  every schema-derived string written in a *quoted* position of the generated annotation text (a placeholder whose
      neighbouring template pieces are `"`), or after `# ` in a one-line `---|` comment, passes through a sanitiser:
      a workspace function that handles the characters that would end the string/line (its body mentions `"` and `\\`
      for quoted positions, a newline for one-line positions).  Templates are decoded from fmt::Arguments in MIR.
R40c  only EmmyLuaEmitter methods write EmmyLuaEmitter.output.
"""
import ast
import dataflow
import panicsurface
import prov
import effects
from report import RuleBroken

CR = "schema_to_emmylua"


def name(c):
    return c.get("r") or c.get("f") or ""


def decode_template(lit):
    """rustc's compact fmt template (bytes): returns list of ('lit', str) / ('arg',) or None if it uses options"""
    try:
        raw = ast.literal_eval(lit)
    except Exception:
        return None
    if not isinstance(raw, (bytes, bytearray)):
        return None
    out = []
    i = 0
    while i < len(raw):
        b = raw[i]
        if b == 0:
            break
        if b < 0x80:
            out.append(("lit", raw[i + 1:i + 1 + b].decode("utf-8", "replace")))
            i += 1 + b
        elif b == 0xC0:
            out.append(("arg",))
            i += 1
        else:
            return None
    return out


def char_consts(b):
    s = set()

    def walk(x):
        if isinstance(x, list):
            if len(x) >= 3 and x[0] == "k" and x[1] in ("char", "str"):
                s.add(x[2])
            else:
                for y in x:
                    walk(y)
        elif isinstance(x, dict):
            for y in x.values():
                walk(y)
    for blk in b.blocks:
        walk(blk[1])
        walk(blk[2])
    return s


def sanitizers(F):
    """workspace functions (str -> String) that mention the characters they must neutralise"""
    quote, line = set(), set()
    for b in F.bodies.values():
        if b.crate != CR or b.kind != "fn" or not b.local_ty_str(0).startswith("alloc::string::String"):
            continue
        cs = set()
        for k, x in F.bodies.items():
            if k == b.id or k.startswith(b.id + "::{"):
                cs |= char_consts(x)
        joined = "".join(cs)
        if '"' in joined and "\\" in joined:
            quote.add(b.id)
        if "\n" in joined or any(name(c).endswith("::lines") for _, c in b.calls()):
            line.add(b.id)
    return quote, line


def line_splitters(F):
    """workspace functions that split a text into lines and know both line-break characters ('\n' and a lone '\r')"""
    out = set()
    for b in F.bodies.values():
        if b.crate != CR or b.kind != "fn":
            continue
        cs = set()
        for k, x in F.bodies.items():
            if k == b.id or k.startswith(b.id + "::{"):
                cs |= char_consts(x)
        if "\n" in cs and "\r" in cs and "\"" not in "".join(cs):
            out.add(b.id)
    # functions built on a splitter (single_line -> doc_lines)
    changed = True
    while changed:
        changed = False
        for b in F.bodies.values():
            if b.crate != CR or b.kind != "fn" or b.id in out:
                continue
            if any(name(c) in out for _, c in b.calls()) and not any(name(c).endswith("::lines") for _, c in b.calls()):
                if b.local_ty_str(0).startswith("alloc::string::String"):
                    out.add(b.id)
                    changed = True
    return out


def run(chk, F, tier):
    chk.rule("R40a", "panic surface of the schema converter")
    chk.rule("R40b", "schema-derived strings in quoted / one-line positions of the emitted text pass a sanitiser")
    chk.rule("R40c", "only EmmyLuaEmitter methods write the output buffer")
    chk.assume("that the emitted text declares the reported root type is not decided; recursion is structural over the parsed JSON (serde bounds its depth)")
    entries = [k for k, b in F.bodies.items() if b.crate == CR and b.kind == "fn" and b.get("vis") == "pub"]
    n, _, _ = panicsurface.audit(chk, F, "R40a", "C40", entries, lambda b: b.crate == CR)
    chk.floor("converter entry points", len(entries), 5)
    quote_san, line_san = sanitizers(F)
    line_san = line_san | line_splitters(F)
    chk.unit("quote sanitisers", len(quote_san))
    chk.unit("line sanitisers", len(line_san))

    def mk(sans):
        def derive(callee, args, c):
            if callee in sans:
                return {("SAN", callee)}
            if callee.endswith("::lines"):
                return {("SAN", "lines")}
            return None

        def source(b, r):
            if r[0] == "const":
                return {("CONST", "")}
            return None
        return prov.Prov(F, source=source, derive=derive, max_depth=16)
    PQ = mk(quote_san)
    PL = mk(line_san | quote_san)
    splitters = line_splitters(F)
    chk.unit("line splitters that know CR and LF", len(splitters))

    def mk_doc():
        def derive(callee, args, c):
            if callee in splitters or callee in quote_san:
                return {("SAN", callee)}
            if callee.endswith("::lines"):
                return {("LINES", "str::lines")}       # does not split at a lone CR
            return None

        def source(b, r):
            if r[0] == "const":
                return {("CONST", "")}
            return None
        return prov.Prov(F, source=source, derive=derive, max_depth=16)
    PD = mk_doc()
    nsites = 0
    for b in F.bodies.values():
        if b.crate != CR or "::tests::" in b.id or "::test" in b.id:
            continue
        for bb, c in b.calls():
            if name(c) != "core::fmt::Arguments::new":
                continue
            # template constant and the args array
            tl = dataflow.operand_local(c["a"][0])
            lit = None
            for r in dataflow.roots(b, tl) if tl is not None else ():
                if r[0] == "const":
                    lit = r[1]
            tpl = decode_template(lit) if lit else None
            if not tpl:
                continue
            al = dataflow.operand_local(c["a"][1])
            arr = None
            for r in dataflow.roots(b, al) if al is not None else ():
                if r[0] == "agg":
                    arr = b.blocks[r[1]][1][r[2]][2][4]
            if arr is None:
                continue
            ai = -1
            for i, piece in enumerate(tpl):
                if piece[0] != "arg":
                    continue
                ai += 1
                if ai >= len(arr):
                    break
                before = tpl[i - 1][1] if i > 0 and tpl[i - 1][0] == "lit" else ""
                after = tpl[i + 1][1] if i + 1 < len(tpl) and tpl[i + 1][0] == "lit" else ""
                quoted = before.endswith('"') and after.startswith('"')
                oneline = before.endswith("# ") and before.lstrip().startswith(("---|", "\"")) or (before.endswith("# "))
                docline = not quoted and not oneline and before.strip() == "---" and before.endswith(" ") and after.startswith("\n")
                if docline:
                    nsites += 1
                    xl = dataflow.operand_local(arr[ai])
                    labs = set()
                    for r in dataflow.roots(b, xl) if xl is not None else ():
                        if r[0] == "call":
                            cc = b.blocks[r[1]][2][1]
                            for a in cc["a"]:
                                labs |= PD.operand_labels(b, a)
                    bad = {l for l in labs if l[0] in ("ENTRY_ARG", "CALL", "CLOSURE_ARG", "UNKNOWN", "LINES")}
                    key = "docline#%d@%s" % (ai, b.id)
                    chk.check(not bad, "R40b", key,
                              "%s writes a schema-derived text as one `--- ` comment line although it may still contain a line break (%s): `str::lines` does "
                              "not split at a lone carriage return, which the Lua lexer treats as the end of the comment, so the rest of the text is parsed "
                              "as code" % (b.id.split("::")[-1], sorted({l[0] for l in bad})), b.loc(c["l"]),
                              witness={"labels": sorted(map(str, labs))[:8]},
                              sample={"rule": "R40b", "site": key, "verdict": "split at LF and at CR before it is written"})
                    continue
                if not quoted and not oneline:
                    continue
                nsites += 1
                # the Argument value: new_display(&x)
                xl = dataflow.operand_local(arr[ai])
                labs = set()
                P = PQ if quoted else PL
                for r in dataflow.roots(b, xl) if xl is not None else ():
                    if r[0] == "call":
                        cc = b.blocks[r[1]][2][1]
                        for a in cc["a"]:
                            labs |= P.operand_labels(b, a)
                raw = {l for l in labs if l[0] in ("ENTRY_ARG", "CALL", "CLOSURE_ARG", "UNKNOWN")}
                key = "%s#%d@%s" % ("quoted" if quoted else "oneline", ai, b.id)
                chk.check(not raw, "R40b", key,
                          "%s writes a schema-derived string %s without escaping (template %r): a value containing %s yields "
                          "annotation text that does not parse" % (b.id.split("::")[-1],
                                                                   "inside double quotes" if quoted else "after `# ` on a one-line comment",
                                                                   "".join(p[1] if p[0] == "lit" else "{}" for p in tpl),
                                                                   "a quote, backslash or newline" if quoted else "a newline"),
                          b.loc(c["l"]), witness={"labels": sorted(map(str, labs))[:8]},
                          sample={"rule": "R40b", "site": key, "verdict": "sanitised before it is written"})
    chk.floor("quoted / one-line placeholder sites", nsites, 3)
    # R40c
    ws = effects.WriteSets(F)
    em = CR + "::lua_emitter::EmmyLuaEmitter"
    nw = 0
    for b in F.bodies.values():
        if b.crate != CR:
            continue
        for blk in b.blocks:
            for st in blk[1]:
                if st[0] == "a" and st[2][0] == "ref" and st[2][1] == "m" and \
                        any(isinstance(e, list) and e[0] == "f" and e[2] == "output" for e in st[2][2][1:]) and "EmmyLuaEmitter" in b.local_ty_str(st[2][2][0]):
                    nw += 1
                    inside = b.get("impl_self") is not None and b.ty(b.get("impl_self"))[3] == em
                    chk.check(inside, "R40c", "output-writer@%s" % b.id, "%s writes EmmyLuaEmitter.output directly, bypassing the emitter's sanitising methods" % b.id, b.loc())
    chk.floor("writers of the output buffer", nw, 5)
    # R40d: a field line always has a type
    chk.rule("R40d", "no `---@field` line is written with an empty type (write_field / write_index_field never receive a constant empty type)")
    nf = 0
    for b in F.bodies.values():
        if b.crate != CR:
            continue
        for bb, c in b.calls():
            n = name(c)
            if not n.endswith(("EmmyLuaEmitter::write_field", "EmmyLuaEmitter::write_index_field")):
                continue
            nf += 1
            ty_arg = c["a"][2] if n.endswith("write_field") else c["a"][2]
            empty = ty_arg[0] == "k" and ty_arg[1] == "str" and ty_arg[2] == ""
            tl = dataflow.operand_local(ty_arg)
            if tl is not None:
                rs = dataflow.roots(b, tl)
                empty = bool(rs) and all(r[0] == "const" and r[1] in ("", '""') for r in rs)
            chk.check(not empty, "R40d", "field-type@%s#%d" % (b.id.split("::")[-1], nf),
                      "%s writes a `---@field` line with an empty type: the doc parser reports `expect type` for it" % b.id.split("::")[-1],
                      b.loc(c["l"]), sample={"rule": "R40d", "site": b.id.split("::")[-1], "verdict": "type operand is not the empty constant"})
    chk.floor("field-writing call sites", nf, 2)

    # R40e: the escapes the emitter produces are escapes for the reader of the annotations
    chk.rule("R40e", "the doc lexer scans quoted strings with backslash escapes (every TkString it produces comes from an escape-aware scanner), "
                     "so the `\\\"` the emitter writes for a quote does not end the string")
    DL = "emmylua_parser::lexer::lua_doc_lexer::"
    import cfgutil as _cfg
    nstr = 0
    for b in F.bodies.values():
        if not b.id.startswith(DL) or b.kind != "fn":
            continue
        succ = b.succ_map()
        idom = _cfg.dominators(succ, 0)
        for bi, blk in enumerate(b.blocks):
            if blk[0]:
                continue
            for st in blk[1]:
                if st[0] == "a" and st[2][0] == "agg" and st[2][1] == "adt" and (st[2][2] or "").endswith("LuaTokenKind") and st[2][3] == "TkString":
                    nstr += 1
                    aware = False
                    for cb, cc in b.calls():
                        if not (cb == bi or _cfg.dominates(idom, cb, bi)):
                            continue
                        callee = F.bodies.get(name(cc))
                        if callee is not None and callee.crate == "emmylua_parser" and "\\" in char_consts(callee):
                            aware = True
                    chk.check(aware, "R40e", "doc-string-scan@%s#%d" % (b.id.split("::")[-1], nstr),
                              "%s produces a TkString without an escape-aware scan (no dominating call to a scanner that tests for a backslash): "
                              "`[\"q\\\"x\"]` written by the schema emitter ends at the escaped quote and the field line does not parse"
                              % b.id.split("::")[-1], b.loc(st[3] if len(st) > 3 else None),
                              sample={"rule": "R40e", "site": b.id.split("::")[-1], "verdict": "escape-aware scanner"})
    chk.floor("TkString productions in the doc lexer", nstr, 2)
    # R40f: the declared names are the reported names
    chk.rule("R40f", "write_class / write_class_extends / write_alias_header write the type name they are given verbatim: ConvertResult.root_type_name is "
                     "built from the same raw name, so any rewriting on the way to the text makes the reported root type undeclared")
    nnm = 0
    for fn in ("write_class", "write_class_extends", "write_alias_header"):
        b = F.bodies.get(CR + "::lua_emitter::EmmyLuaEmitter::" + fn)
        if b is None:
            raise RuleBroken("EmmyLuaEmitter::%s not found" % fn)
        str_params = {i_ for i_ in range(1, b.argc + 1) if b.local_ty_str(i_) == "&str"}
        for bb, c in b.calls():
            if not name(c).endswith(("Argument::<'_>::new_display", "Argument::new_display")) or not c["a"]:
                continue
            l = dataflow.operand_local(c["a"][0])

            def deep(loc, depth=0):
                out = set()
                for r in (dataflow.roots(b, loc) if loc is not None else ()):
                    if r[0] == "place" and depth < 5 and r[2] and isinstance(r[2][0], (list, tuple)) and r[2][0][0] == "f":
                        ds = dataflow.def_sites(b).get(r[1], [])
                        if ds and all(d[0] == "stmt" and d[3][0] == "agg" and d[3][1] == "tuple" for d in ds):
                            for d in ds:
                                ops = d[3][4]
                                if r[2][0][1] < len(ops):
                                    out |= deep(dataflow.operand_local(ops[r[2][0][1]]), depth + 1)
                            continue
                    out.add(r)
                return out
            rs = deep(l)
            # only the string-valued placeholders matter (the `(file)` marker is a constant)
            calls = [r for r in rs if r[0] == "call" and not name(b.blocks[r[1]][2][1]).endswith(("Deref>::deref", "::as_str", "::as_ref"))]
            from_param = any(r[0] == "arg" and r[1] in str_params for r in rs)
            if not from_param and not calls:
                continue
            nnm += 1
            chk.check(not calls, "R40f", "%s:name-verbatim#%d" % (fn, nnm),
                      "%s passes the type name through %s before writing it: the text then declares a different name than the one the converter reports as "
                      "root type (a kebab-case title such as `app-settings` is valid in annotations and must stay as it is)"
                      % (fn, [name(b.blocks[r[1]][2][1]).split("::")[-1] for r in calls]), b.loc(c["l"]),
                      sample={"rule": "R40f", "fn": fn, "verdict": "name parameter written as given"})
    chk.floor("type-name placeholders in the emitter", nnm, 3)
    chk.explanation = "Panic-surface audit; fmt templates decoded from MIR to find quoted/one-line placeholders, provenance of the written value with sanitiser recognition; who-may-write on the output buffer."
