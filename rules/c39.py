"""C39: atomic-replace discipline of in-place formatting.

R39a  no truncating write (fs::write, File::create, OpenOptions::open, fs::copy destination) in the formatter
      crate and the luafmt binary receives a path that may be one of the collected input files; the only way to
      modify an input path is fs::rename(tmp, target).
R39b  for every fs::rename whose destination may be an input file: the source is a freshly derived temporary
      sibling (Path::join / with_extension / with_file_name), and a complete write (write_all / fs::write) to a
      temporary path precedes the rename on every path, with a flush (sync_all/sync_data/flush or drop) before it.
R39c  positive control: the `--output`/stdout branch still contains writes that are classified as OUTPUT (the
      matcher sees write sites at all).
"""
import cfgutil
import prov
from report import RuleBroken

TRUNC_WRITES = {
    "std::fs::write": 0, "std::fs::File::create": 0, "std::fs::File::create_new": 0,
    "std::fs::OpenOptions::open": 1, "std::fs::copy": 1, "std::fs::File::options": None,
    "std::fs::File::create_buffered": 0,
}
TEMP_DERIVERS = ("std::path::Path::join", "std::path::Path::with_extension", "std::path::Path::with_file_name",
                 "std::path::Path::with_added_extension", "std::path::PathBuf::push", "std::path::PathBuf::set_extension",
                 "std::path::PathBuf::set_file_name", "std::env::temp_dir")
INPUT_SOURCES = ("emmylua_formatter::workspace::collect_lua_files", "emmylua_formatter::collect_lua_files")


def make_prov(F):
    def source(b, r):
        if r[0] == "call":
            c = b.blocks[r[1]][2][1]
            callee = c.get("r") or c.get("f") or ""
            if callee in INPUT_SOURCES or callee.endswith("::collect_lua_files"):
                return {("INPUT", callee)}
            if callee in TEMP_DERIVERS:
                return {("TEMP", callee)}
        if r[0] == "place":
            for e in r[2]:
                if isinstance(e, tuple) and e[0] == "f" and e[2] == "output":
                    return {("OUTPUT", "args.output")}
                if isinstance(e, tuple) and e[0] == "f" and e[2] == "paths":
                    return {("INPUT", "args.paths")}
        return None
    return prov.Prov(F, source=source)


def kinds(ls):
    return {l[0] for l in ls}


def run(chk, F, tier):
    chk.rule("R39a", "no truncating write on a path that may be a collected input file")
    chk.rule("R39b", "fs::rename onto an input file: source is a derived temporary, fully written and flushed before")
    chk.rule("R39c", "positive control: output-path writes are still seen and classified OUTPUT")
    chk.assume("durability across power loss (fsync of the directory) is not claimed")
    chk.assume("paths derived with Path::join/with_extension/with_file_name name a different file than the input")
    P = make_prov(F)
    main = F.bodies.get("luafmt::main")
    if main is None:
        raise RuleBroken("luafmt::main not found")
    scope = [b for b in F.bodies.values() if b.crate in ("luafmt", "emmylua_formatter") and "::test" not in b.id
             and b.kind in ("fn", "closure", "coroutine")]
    chk.unit("bodies in scope", len(scope))
    nw = 0
    n_out = 0
    renames = []
    for b in scope:
        for bb, c in b.calls():
            callee = c.get("r") or c.get("f") or ""
            if callee == "std::fs::rename":
                renames.append((b, bb, c))
            if callee not in TRUNC_WRITES or TRUNC_WRITES[callee] is None:
                continue
            ai = TRUNC_WRITES[callee]
            if ai >= len(c["a"]):
                continue
            nw += 1
            ls = P.operand_labels(b, c["a"][ai])
            ks = kinds(ls)
            key = "%s@%s#%d" % (callee.split("::")[-1], b.id, sum(1 for x, cc in b.calls() if x < bb and (cc.get("r") or cc.get("f")) == callee))
            if "OUTPUT" in ks and "INPUT" not in ks:
                n_out += 1
            ok = "INPUT" not in ks or "TEMP" in ks
            chk.check(ok, "R39a", key,
                      "%s truncates a path that may be one of the input files being formatted (provenance: %s); a crash "
                      "or write failure here leaves the source file empty or cut short" % (callee, sorted(ks)),
                      b.loc(c["l"]), witness={"labels": sorted(map(str, ls))[:12]},
                      sample={"rule": "R39a", "site": key, "path_provenance": sorted(ks), "verdict": "not an input file"})
    chk.floor("truncating write sites", nw, 3)
    chk.check(n_out >= 1, "R39c", "output-writes-classified", "no write site is classified as the --output path any more; "
              "the provenance matcher may have gone blind", main.loc())
    # the --write branch must still modify files somehow: at least one rename onto INPUT
    n_in_place = 0
    for b, bb, c in renames:
        dst = kinds(P.operand_labels(b, c["a"][1]))
        src = kinds(P.operand_labels(b, c["a"][0]))
        if "INPUT" not in dst:
            continue
        n_in_place += 1
        key = "rename@%s" % b.id
        chk.check("TEMP" in src, "R39b", key + ":src", "rename source is not a derived temporary path (%s)" % sorted(src),
                  b.loc(c["l"]))
        succ = b.succ_map()
        W = {x for x, cc in b.calls() if (cc.get("r") or cc.get("f") or "") in ("std::io::Write::write_all", "std::fs::write")
             or (cc.get("r") or cc.get("f") or "").endswith("::write_all")}
        S = {x for x, cc in b.calls() if (cc.get("r") or cc.get("f") or "").split("::")[-1] in ("sync_all", "sync_data", "flush", "drop")}
        p = cfgutil.paths_avoiding(succ, 0, {bb}, W) if W else [0]
        chk.check(p is None, "R39b", key + ":written", "rename reachable without a complete write of the temporary file",
                  b.loc(c["l"]), witness={"path_blocks": p})
        # a buffered writer must itself be flushed (or unwrapped/dropped) before the rename: syncing the inner File
        # does not write what is still in the buffer
        for wbb in W:
            wc = b.blocks[wbb][2][1]
            recv_ty = b.ty_str(wc["ga"][0]) if wc.get("ga") else ""
            if any(x in recv_ty for x in ("BufWriter", "LineWriter")):
                fl = {x for x, cc in b.calls() if (cc.get("r") or cc.get("f") or "").split("::")[-1] in ("flush", "into_inner", "into_parts")
                      and any(y in " ".join(b.ty_str(g) for g in cc.get("ga", [])) + (cc.get("r") or "") for y in ("BufWriter", "LineWriter"))}
                pf = cfgutil.paths_avoiding(succ, 0, {bb}, fl) if fl else [0]
                chk.check(pf is None, "R39b", key + ":buffer-flushed",
                          "the temporary file is written through a %s that is not flushed before the rename: the renamed file can be "
                          "empty or partial while the content is written only when the buffer is dropped, after the rename" % recv_ty,
                          b.loc(c["l"]))
        p = cfgutil.paths_avoiding(succ, 0, {bb}, S) if S else [0]
        chk.check(p is None, "R39b", key + ":flushed", "rename reachable without flushing/closing the temporary file",
                  b.loc(c["l"]), witness={"path_blocks": p})
        # a failed write must not be followed by the rename: the rename block must not be reachable from the
        # residual (error) edge of the write's `?`
        for w in W:
            wc = b.blocks[w][2][1]
            nxt = wc["t"]
            if nxt is None:
                continue
            t = b.blocks[nxt][2]
            if t[0] == "call" and (t[1].get("f") or "").endswith("Try::branch"):
                # switch after branch: arm 1 = Break (error)
                sw_bb = t[1]["t"]
                sw = b.blocks[sw_bb][2] if sw_bb is not None else None
                if sw and sw[0] == "sw":
                    err_targets = [tb for val, tb in sw[2] if val == 1]
                    for et in err_targets:
                        reach = cfgutil.reachable(succ, et)
                        chk.check(bb not in reach, "R39b", key + ":error-skips-rename",
                                  "the rename is reachable after a failed write of the temporary file", b.loc(c["l"]))
            else:
                chk.violation("R39b", key + ":write-result", "the result of writing the temporary file is not checked with `?` before the rename",
                              b.loc(wc["l"]))
    chk.unit("in-place renames", n_in_place)
    # --write must be implemented by rename (otherwise in-place modification happens by some unseen API)
    chk.check(n_in_place >= 1, "R39b", "in-place-by-rename", "no fs::rename onto an input file found: in-place formatting "
              "is not implemented by atomic replace", main.loc())
    # R39d: the temporary that is later renamed over the input starts empty
    chk.rule("R39d", "every file opened for writing by luafmt starts empty or is new: File::create, or OpenOptions with truncate(true) / create_new(true) / "
                     "append on a fresh file -- a write-only open of an existing leftover keeps its stale tail, which the rename then installs")
    import dataflow
    nopen = 0
    for b in scope:
        if b.crate != "luafmt":
            continue
        for bb, c in b.calls():
            n = c.get("r") or c.get("f") or ""
            if not n.endswith("OpenOptions::open"):
                continue
            nopen += 1
            # option methods applied to the same builder
            l = dataflow.operand_local(c["a"][0]) if c["a"] else None
            seen, todo, opts = set(), [l], {}
            while todo:
                x = todo.pop()
                if x is None or x in seen:
                    continue
                seen.add(x)
                for r in dataflow.roots(b, x):
                    if r[0] == "call":
                        cc = b.blocks[r[1]][2][1]
                        nn = cc.get("r") or cc.get("f") or ""
                        if "OpenOptions::" in nn:
                            m = nn.split("::")[-1]
                            val = cc["a"][1][2] if len(cc["a"]) > 1 and cc["a"][1][0] == "k" else None
                            opts[m] = val
                            if cc["a"]:
                                todo.append(dataflow.operand_local(cc["a"][0]))
            writes = opts.get("write") in (True, "true", 1) or opts.get("append") in (True, "true", 1) or "write" in opts
            safe = opts.get("truncate") in (True, "true", 1) or opts.get("create_new") in (True, "true", 1)
            chk.check(not writes or safe, "R39d", "open@%s#%d" % (b.id.replace("luafmt::", ""), nopen),
                      "%s opens a file for writing without truncate(true) or create_new(true) (options: %s): if the file already exists -- a temporary left by "
                      "an interrupted run -- the new text is written over its beginning and the old tail survives; the following rename installs that mixture"
                      % (b.id.split("::")[-1], sorted(opts)), b.loc(c["l"]), witness={"options": {k: str(v) for k, v in opts.items()}},
                      sample={"rule": "R39d", "site": b.id, "verdict": "starts empty"})
    chk.unit("OpenOptions::open sites in luafmt", nopen)
    chk.explanation = ("Backward provenance of the path argument of every truncating write / rename in the formatter crate "
                       "and luafmt (through closures, helpers and callers); CFG must-precede for write->flush->rename.")
