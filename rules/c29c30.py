"""C29 (ordering/serialisation clauses) and C30 (removal => clear pairing).

R29a  EmmyLuaAnalysis::reload_workspace_files: the disk batch is filtered by membership in the open-file path set and is
      applied before the open files (so editor text is applied last).
R29b  apply_workspace_reload is only called with the reload_lock guard held and after the stale-generation test.
R29c  apply_workspace_reload reconciles open files (sync_reloaded_open_files) after init_analysis on every path; the
      reconciliation loop only exits through the `version unchanged` test.
R30   every place in emmylua_ls where a file leaves the analysis (remove_file_by_uri, cleanup_nonexistent_files, the stale list
      of reload_workspace_files, the uris returned by apply_open_file_sync) reaches FileDiagnostic::clear_push_file_diagnostics.
"""
import cfgutil
import guards
import locks
from report import RuleBroken

CA = "emmylua_code_analysis::EmmyLuaAnalysis"
LS = "emmylua_ls"
CLEAR = LS + "::context::file_diagnostic::FileDiagnostic::clear_push_file_diagnostics"
REMOVERS = {CA + "::remove_file_by_uri": "direct", CA + "::cleanup_nonexistent_files": "bulk-silent",
            CA + "::reload_workspace_files": "returns-uris"}


def name(c):
    return c.get("r") or c.get("f") or ""


def run_c29(chk, F, tier):
    chk.rule("R29a", "reload_workspace_files: disk batch filtered by open paths and applied before the open files")
    chk.rule("R29b", "apply_workspace_reload runs under reload_lock after the generation test")
    chk.rule("R29c", "open files are reconciled after init_analysis; the loop exits only when the snapshot version is unchanged")
    chk.assume("convergence under interleavings of notifications with the reload is a scheduling property and is not decided")
    b = F.bodies.get(CA + "::reload_workspace_files")
    if b is None:
        raise RuleBroken("reload_workspace_files not found")
    succ = b.succ_map()
    by_path = {bb for bb, c in b.calls() if name(c) == CA + "::update_files_by_path"}
    by_uri = {bb for bb, c in b.calls() if name(c) == CA + "::update_files_by_uri"}
    chk.check(bool(by_path) and bool(by_uri), "R29a", "reload:calls", "reload_workspace_files no longer applies a disk batch and the open files", b.loc())
    if by_path and by_uri:
        p = cfgutil.paths_avoiding(succ, 0, by_uri, by_path)
        chk.check(p is None, "R29a", "reload:disk-before-open", "open files can be applied before the disk batch: disk content would overwrite editor text", b.loc())
        late = set()
        for x in by_uri:
            late |= (cfgutil.reachable(succ, x) - {x}) & by_path
        chk.check(not late, "R29a", "reload:no-disk-after-open", "the disk batch is applied after the open files", b.loc())
        # the filter closure consults the open path set
        filt = False
        for k, cb in F.bodies.items():
            if k.startswith(b.id + "::{closure") and any(name(c).endswith("HashSet<T, S, A>::contains") or name(c).endswith("::contains") for _, c in cb.calls()):
                # closure captured variable named open_paths?  check the capture's debug name in the parent
                filt = True
        chk.check(filt, "R29a", "reload:filter-open-paths", "the disk batch is no longer filtered by the open-file path set", b.loc())
    # R29b
    sp = F.bodies.get(LS + "::context::workspace_manager::spawn_workspace_reload_task::{closure#0}")
    if sp is None:
        raise RuleBroken("spawn_workspace_reload_task body not found")
    BL = locks.BodyLocks(sp)
    apply_name = LS + "::context::workspace_manager::apply_workspace_reload"
    held_ok = False
    ncall = 0
    for bb, c, held in BL.calls_held:
        if name(c) == apply_name:
            ncall += 1
            held_ok = any(h[0] == "()" and h[1] == "mutex" for h in held)
    chk.check(ncall >= 1 and held_ok, "R29b", "reload:under-lock", "apply_workspace_reload is called without the reload_lock guard held", sp.loc())
    succ = sp.succ_map()
    loads = {bb for bb, c in sp.calls() if "AtomicU64::load" in name(c) or name(c).endswith("::load")}
    calls = {bb for bb, c in sp.calls() if name(c) == apply_name}
    p = cfgutil.paths_avoiding(succ, 0, calls, loads) if calls else [0]
    chk.check(p is None, "R29b", "reload:generation-test", "apply_workspace_reload reachable without the stale-generation test", sp.loc())
    # all callers of apply_workspace_reload
    others = [x.id for x in F.bodies.values() for _, c in x.calls() if name(c) == apply_name and x.id != sp.id]
    chk.check(not others, "R29b", "reload:single-caller", "apply_workspace_reload is called outside the serialised reload task: %s" % others, sp.loc())
    # R29c
    ap = F.bodies.get(apply_name + "::{closure#0}")
    sy = F.bodies.get(LS + "::context::workspace_manager::sync_reloaded_open_files::{closure#0}")
    if ap is None or sy is None:
        raise RuleBroken("apply_workspace_reload / sync_reloaded_open_files not found")
    succ = ap.succ_map()
    init = {bb for bb, c in ap.calls() if name(c).endswith("::init_analysis")}
    sync = {bb for bb, c in ap.calls() if name(c).endswith("::sync_reloaded_open_files")}
    snap = {bb for bb, c in ap.calls() if name(c).endswith("::workspace_open_files_snapshot")}
    chk.check(bool(init) and bool(sync) and bool(snap), "R29c", "apply:calls", "apply_workspace_reload lost init_analysis / sync / snapshot", ap.loc())
    if init and sync and snap:
        p = cfgutil.paths_avoiding(succ, 0, set(ap.returns()), sync)
        chk.check(p is None, "R29c", "apply:sync-on-every-path", "apply_workspace_reload can finish without reconciling the open files", ap.loc())
        p = cfgutil.paths_avoiding(succ, 0, sync, init)
        chk.check(p is None, "R29c", "apply:init-before-sync", "open files reconciled before the analysis was rebuilt", ap.loc())
        p = cfgutil.paths_avoiding(succ, 0, init, snap)
        chk.check(p is None, "R29c", "apply:snapshot-before-init", "the open-file snapshot is not taken before the analysis is rebuilt", ap.loc())
    # loop exit only via version equality: every return of the coroutine is dominated by a comparison of `.version` fields
    succ = sy.succ_map()
    cmp_blocks = set()
    for bi, blk in enumerate(sy.blocks):
        for st in blk[1]:
            if st[0] == "a" and st[2][0] == "bin" and st[2][1] in ("Eq", "Ne"):
                cmp_blocks.add(bi)
    cmp_blocks |= {bb for bb, c in sy.calls() if name(c).endswith("PartialEq::eq") or name(c).endswith("::eq") or name(c).endswith("::ne")}
    p = cfgutil.paths_avoiding(succ, 0, set(sy.returns()), cmp_blocks)
    chk.check(bool(cmp_blocks) and p is None, "R29c", "sync:exit-only-when-unchanged",
              "sync_reloaded_open_files can return without comparing the snapshot versions", sy.loc())
    # R29e: the reconciliation loop carries the whole snapshot to its next round
    chk.rule("R29e", "sync_reloaded_open_files replaces its applied snapshot as a whole on each round (files and version together): the set of "
                     "documents closed since the last round is computed against it")
    snap_locals = [l for l in range(len(sy.locals)) if sy.local_ty_str(l).endswith("OpenFilesSnapshot")]
    sy_succ = sy.succ_map()
    sy_loops = cfgutil.natural_loops(sy_succ, 0)
    nfw = 0
    for l in snap_locals:
        whole, fields = [], {}
        for bi, blk in enumerate(sy.blocks):
            if blk[0]:
                continue
            for st in blk[1]:
                if st[0] == "a" and st[1][0] == l:
                    inloop = any(bi in body for body in sy_loops.values())
                    if not inloop:
                        continue
                    if len(st[1]) == 1:
                        whole.append(bi)
                    else:
                        for e in st[1][1:]:
                            if isinstance(e, list) and e[0] == "f":
                                fields.setdefault(e[2], []).append(bi)
        if fields:
            nfw += 1
            chk.check("files" in fields or bool(whole), "R29e", "snapshot-carried:%s" % (sy.local_name(l) or "_%d" % l),
                      "the reconciliation loop updates only %s of its applied snapshot: the file list stays the one captured when the reload started, so a "
                      "document opened and closed again during the reload is not recognised as closed and keeps the editor text instead of the disk text"
                      % sorted(fields), sy.loc(), sample={"rule": "R29e", "verdict": "whole snapshot replaced"})
    chk.unit("snapshot locals in the reconciliation loop", len(snap_locals))
    # R29d: the snapshot version that the reconciliation loop compares must change whenever an open text changes
    chk.rule("R29d", "every mutation of WorkspaceManager.open_file_texts is followed by a bump of open_file_state_version on every path")
    WM = LS + "::context::workspace_manager::WorkspaceManager"
    nmut = 0
    for b in F.bodies.values():
        if b.kind != "fn" or b.get("impl_self") is None or b.ty(b.get("impl_self"))[3] != WM:
            continue
        W, V = set(), set()
        for bi, blk in enumerate(b.blocks):
            if blk[0]:
                continue
            for st in blk[1]:
                if st[0] != "a":
                    continue
                if st[2][0] == "ref" and st[2][1] == "m" and any(isinstance(e, list) and e[0] == "f" and e[2] == "open_file_texts" for e in st[2][2][1:]):
                    W.add(bi)
                if any(isinstance(e, list) and e[0] == "f" and e[2] == "open_file_state_version" for e in st[1][1:]):
                    V.add(bi)
        if not W:
            continue
        nmut += 1
        succ = b.succ_map()
        # a `remove` that removed nothing changed nothing: the None edge of a test on its result needs no bump
        for w in list(W):
            t = b.blocks[w][2]
            if t[0] != "call" or not name(t[1]).endswith("::remove") or len(t[1]["d"]) != 1:
                continue
            res = {t[1]["d"][0]}
            for bi2, blk2 in enumerate(b.blocks):
                for st in blk2[1]:
                    if st[0] == "a" and len(st[1]) == 1 and st[2][0] in ("ref", "use"):
                        srcp = st[2][2] if st[2][0] == "ref" else (st[2][1][1] if st[2][1][0] in ("c", "m") else None)
                        if srcp and len(srcp) == 1 and srcp[0] in res:
                            res.add(st[1][0])
            for bi2, c2 in b.calls():
                if name(c2).endswith(("Option::<T>::is_some", "Option::<T>::is_none")) and c2["a"] and c2["a"][0][0] in ("c", "m") and c2["a"][0][1][0] in res:
                    br = guards.bool_branch(b, bi2)
                    if br:
                        V.add(br[1] if name(c2).endswith("is_some") else br[0])
            for bi2, blk2 in enumerate(b.blocks):
                t2 = blk2[2]
                if t2[0] == "sw" and t2[1][0] in ("c", "m"):
                    for st in blk2[1]:
                        if st[0] == "a" and st[1] == [t2[1][1][0]] and st[2][0] == "disc" and st[2][1][0] in res:
                            V |= {tb for v, tb in t2[2] if v == 0}
        ok = True
        for w in W:
            if w in V:
                continue
            if cfgutil.paths_avoiding(succ, w, set(b.returns()), V) is not None:
                ok = False
        chk.check(ok, "R29d", "version-bump:" + b.id.split("::")[-1],
                  "%s changes open_file_texts on a path that does not bump open_file_state_version: sync_reloaded_open_files "
                  "compares versions to detect edits made during a reload, so such an edit is never re-applied and the analysis stays "
                  "on the pre-reload text" % b.id.split("::")[-1], b.loc(),
                  sample={"rule": "R29d", "fn": b.id.split("::")[-1], "verdict": "version bumped on every mutating path"})
    chk.floor("mutators of open_file_texts", nmut, 2)
    chk.explanation = "Must-precede / must-pass-through on the reload functions, held-lock analysis at the reload call, write pairing of open texts and snapshot version."


def run_c30(chk, F, tier):
    chk.rule("R30", "every removal of a file from the analysis in the server reaches clear_push_file_diagnostics")
    chk.assume("decides 'a removed file ends with an empty published set' and two structural premises of convergence (a computed diagnosis is "
               "always sent; cancellation tokens are per file); which task runs last under a given timing is not decided")
    idx = {}
    for b in F.bodies.values():
        for bb, c in b.calls():
            idx.setdefault(name(c), []).append((b, bb, c))
    n = 0

    def cleared_after(b, bb):
        succ = b.succ_map()
        after = cfgutil.reachable(succ, bb)
        return any(x in after for x, c in b.calls() if name(c) == CLEAR)

    def returns_uris(b):
        return "Uri" in b.local_ty_str(0) or (b.kind == "coroutine" and "Uri" in str(b.d.get("ret", "")))

    for rem, kind in REMOVERS.items():
        for b, bb, c in idx.get(rem, []):
            if b.crate != LS or "::test" in b.id:
                continue
            n += 1
            key = "%s@%s" % (rem.split("::")[-1], b.id.replace(LS + "::", ""))
            if cleared_after(b, bb):
                chk.ok("R30", key, {"rule": "R30", "site": key, "verdict": "clear_push_file_diagnostics follows in the same task"})
                continue
            # the enclosing async fn may hand the removed uris to its caller
            owner = b.id[:-len("::{closure#0}")] if b.id.endswith("::{closure#0}") else b.id
            passed = False
            ob = F.bodies.get(owner)
            ret_ty = ob.local_ty_str(0) if ob is not None else ""
            if kind != "bulk-silent" and ("Uri" in ret_ty or (ob is not None and any("Uri" in ob.ty_str(l[0]) and "Vec" in ob.ty_str(l[0]) for l in b.locals[:1]))):
                callers = idx.get(owner, [])
                passed = bool(callers) and all(cleared_after(cb, cbb) for cb, cbb, cc in callers if cb.crate == LS)
            # coroutine return type: look at the coroutine's own _0
            if not passed and kind != "bulk-silent" and "Uri" in b.local_ty_str(0):
                callers = idx.get(owner, [])
                passed = bool(callers) and all(cleared_after(cb, cbb) for cb, cbb, cc in callers if cb.crate == LS)
            chk.check(passed, "R30", key,
                      "%s removes files from the analysis in %s but no path reaches clear_push_file_diagnostics for them: with "
                      "push diagnostics the editor keeps showing the removed file's last diagnostics" % (rem.split("::")[-1], b.id),
                      b.loc(c["l"]), sample={"rule": "R30", "site": key, "verdict": "removed uris are returned to a caller that clears them"})
    chk.floor("removal sites in the server", n, 7)

    # R30b: a computed diagnosis is always sent
    chk.rule("R30b", "in the server's diagnostic tasks every successful diagnose_file result reaches ClientProxy::publish_diagnostics on "
                     "every path (no result is withheld by a cache or a comparison with what was sent before)")
    PUBLISH = LS + "::context::client::ClientProxy::publish_diagnostics"
    DIAGNOSE = CA + "::diagnose_file"
    if PUBLISH not in idx:
        PUBLISH = next((k for k in idx if k.endswith("ClientProxy::publish_diagnostics")), PUBLISH)
    ls_bodies = [b for b in F.bodies.values() if b.crate == LS and "::test" not in b.id]
    must_publish = set()
    for _ in range(4):
        for b in ls_bodies:
            if b.id in must_publish or b.kind not in ("fn",):
                continue
            pubs = {bb for bb, c in b.calls() if name(c) == PUBLISH or name(c) in must_publish}
            if pubs and cfgutil.paths_avoiding(b.succ_map(), 0, set(b.returns()), pubs) is None:
                must_publish.add(b.id)
    nd = 0
    for b in ls_bodies:
        if "context::file_diagnostic" not in b.id:
            continue
        for bb, c in b.calls():
            if name(c) != DIAGNOSE or len(c["d"]) != 1:
                continue
            if "::pull_" in b.id:
                continue    # pull model: the diagnosis is the response of the request, nothing is pushed
            nd += 1
            key = "publish-after-diagnose@%s" % b.id.replace(LS + "::context::file_diagnostic::", "")
            succ = b.succ_map()
            # the Some edge of the switch on the result's discriminant
            res = {c["d"][0]}
            some_targets = []
            for bi in sorted(cfgutil.reachable(succ, c["t"]) | {c["t"]}):
                blk = b.blocks[bi]
                for st in blk[1]:
                    if st[0] == "a" and len(st[1]) == 1 and st[2][0] == "use" and st[2][1][0] in ("c", "m") and st[2][1][1][0] in res and len(st[2][1][1]) == 1:
                        res.add(st[1][0])
                t = blk[2]
                if t[0] == "sw" and t[1][0] in ("c", "m"):
                    dl = t[1][1][0]
                    for st in blk[1]:
                        if st[0] == "a" and st[1] == [dl] and st[2][0] == "disc" and st[2][1][0] in res:
                            some_targets += [tb for v, tb in t[2] if v == 1] or [t[3]]
            if not some_targets:
                chk.violation("R30b", key, "the result of diagnose_file is not matched on Some/None here: cannot tell what happens to a computed diagnosis", b.loc(c["l"]))
                continue
            pubs = {x for x, cc in b.calls() if name(cc) == PUBLISH or name(cc) in must_publish}
            wit = None
            for s0 in some_targets:
                p = cfgutil.paths_avoiding(succ, s0, set(b.returns()), pubs)
                if p is not None:
                    wit = p
            chk.check(wit is None, "R30b", key,
                      "a diagnosis computed by diagnose_file can reach the end of the task without publish_diagnostics (a path from the "
                      "Some branch avoids every publishing call): the client keeps an older set although a fresh one was computed -- e.g. after "
                      "clear_push_file_diagnostics sent [] and the same diagnostics come back" , b.loc(c["l"]),
                      witness={"path_blocks": wit, "lines": sorted({b.blocks[x][2][1]["l"] for x in (wit or []) if b.blocks[x][2][0] == "call"})[:12]},
                      sample={"rule": "R30b", "site": key, "verdict": "every path from the Some branch publishes"})
    chk.floor("diagnose_file call sites in the diagnostic scheduler", nd, 2)

    # R30c: one cancellation token per file id
    chk.rule("R30c", "a token stored in FileDiagnostic.diagnostic_tokens is created for that one insert (no token is registered under several "
                     "file ids): cancelling file K's pending task must not cancel another file's task")
    import cfgutil as _c
    import dataflow as _d
    nins = 0
    for b in ls_bodies:
        if "context::file_diagnostic" not in b.id:
            continue
        succ = b.succ_map()
        loops = None
        for bb, c in b.calls():
            if not name(c).endswith("HashMap::<K, V, S, A>::insert") and not name(c).endswith("::insert"):
                continue
            if not c["a"] or "CancellationToken" not in b.ty_str_op(c["a"][0]) or "FileId" not in b.ty_str_op(c["a"][0]):
                continue
            nins += 1
            key = "token-per-file@%s" % b.id.replace(LS + "::context::file_diagnostic::", "")
            # creation site of the stored token, through clones
            created = set()
            todo, seen = [c["a"][2]] if len(c["a"]) > 2 else [], set()
            while todo:
                op = todo.pop()
                l = _d.operand_local(op)
                if l is None or l in seen:
                    continue
                seen.add(l)
                for r in _d.roots(b, l):
                    if r[0] == "call":
                        cc = b.blocks[r[1]][2][1]
                        if name(cc).endswith("CancellationToken::new"):
                            created.add(r[1])
                        elif name(cc).endswith(("Clone>::clone", "::child_token")) and cc["a"]:
                            todo.append(cc["a"][0])
                        else:
                            created.add(("other", r[1]))
                    else:
                        created.add(("other", r))
            if loops is None:
                loops = _c.natural_loops(succ, 0)
            in_loops = [body for h, body in loops.items() if bb in body]
            ok = bool(created) and all(isinstance(x, int) for x in created) and \
                all(all(x in body for x in created) for body in in_loops)
            chk.check(ok, "R30c", key,
                      "the token inserted into diagnostic_tokens here is %s: several file ids share one token, so a later request for one "
                      "of them cancels the pending diagnosis of the others and their published sets stay stale"
                      % ("created outside the loop that inserts it" if created and all(isinstance(x, int) for x in created) else "not a fresh CancellationToken::new()"),
                      b.loc(c["l"]), sample={"rule": "R30c", "site": key, "verdict": "fresh token per insert"})
    # R30d: registrations are plain tokens: dropping or replacing a map entry has no side effect on the task it was made for
    chk.rule("R30d", "FileDiagnostic.diagnostic_tokens stores plain CancellationTokens: a finished task removes whatever is registered under its file id "
                     "(possibly a newer task's entry), which must not cancel anything")
    fd = F.adts.get(LS + "::context::file_diagnostic::FileDiagnostic")
    if fd is None:
        raise RuleBroken("FileDiagnostic not found")
    tok_ty = next((fd["_types"][f["ty"]][0] for f in fd["variants"][0]["fields"] if f["name"] == "diagnostic_tokens"), "")
    plain = "CancellationToken" in tok_ty and "DropGuard" not in tok_ty
    chk.check(plain, "R30d", "token-map-values",
              "diagnostic_tokens is `%s`: its values cancel on drop, and the completion path of a task does `tokens.remove(&file_id)` for whatever entry is "
              "there -- an older task that finishes late drops the newer task's guard and the newest content is never diagnosed" % tok_ty[:110],
              "%s:%s" % (fd["file"], fd["line"]), sample={"rule": "R30d", "verdict": "plain CancellationToken values"})
    if plain:
        chk.floor("inserts into diagnostic_tokens", nins, 1)
    # R30e: mass cancellation of per-file tasks
    chk.rule("R30e", "FileDiagnostic::cancel_all (cancels every pending per-file task) is called only from audited places: the workspace pass that "
                     "would replace those tasks visits main-workspace files only")
    CANCEL_ALL_AUDITED = {}
    ncall = 0
    for b in ls_bodies:
        for bb, c in b.calls():
            if name(c).endswith("FileDiagnostic::cancel_all"):
                ncall += 1
                key = "cancel_all@%s" % b.id.replace(LS + "::", "")
                chk.check(key in CANCEL_ALL_AUDITED, "R30e", key,
                          "%s cancels every pending per-file diagnostic task: files that only per-file tasks ever diagnose (open files outside the main "
                          "workspace, single-file mode) keep their stale published set" % b.id.split("::")[-2 if b.id.endswith("}") else -1], b.loc(c["l"]),
                          sample={"rule": "R30e", "site": key, "verdict": CANCEL_ALL_AUDITED.get(key)})
    chk.unit("callers of FileDiagnostic::cancel_all", ncall)
    chk.explanation = "Siblings cross-check: forward reachability from every removal call to the clear call (or to the caller that receives the removed uris)."
