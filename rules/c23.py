"""C23: declared vs implemented position encoding; line terminators.

R23a  the unit the server implements for `character` (read from the callees of LineIndex's column functions:
      str::chars/char_indices/len_utf8 => Unicode scalar values (UTF-32 units); encode_utf16/len_utf16 => UTF-16)
      equals the unit it declares (ServerCapabilities.position_encoding; absent => UTF-16 by the protocol).
R23b  the bytes LineIndex::parse treats as line terminators are the protocol's set: '\\n', '\\r\\n' and a lone '\\r'.
"""
from report import RuleBroken

LI = "emmylua_parser::text::line_index::LineIndex"
COL_FUNS = ("get_col", "get_line_col", "get_offset", "get_col_offset_at_line")


def name(c):
    return c.get("r") or c.get("f") or ""


def run(chk, F, tier):
    chk.rule("R23a", "implemented column unit == declared position encoding")
    chk.rule("R23b", "line terminators of LineIndex::parse == {LF, CRLF, lone CR}")
    chk.assume("decides agreement between declaration and implementation, not the arithmetic of the conversions (C22 is not applicable)")
    units = set()
    nfun = 0
    for fn in COL_FUNS:
        b = F.bodies.get(LI + "::" + fn)
        if b is None:
            continue
        nfun += 1
        bodies = [b] + [x for k, x in F.bodies.items() if k.startswith(b.id + "::{closure")]
        for bd in bodies:
            for bb, c in bd.calls():
                n = name(c)
                if n.endswith("::chars") or n.endswith("::char_indices") or n.endswith("char::len_utf8") or n.endswith("methods::len_utf8"):
                    units.add("scalar")
                if "utf16" in n:
                    units.add("utf16")
    # helpers of the column functions inside the line-index module, and byte-level counting
    MOD = "emmylua_parser::text::line_index::"
    scope = set()
    todo = [LI + "::" + fn for fn in COL_FUNS if LI + "::" + fn in F.bodies]
    while todo:
        x = todo.pop()
        if x in scope or x not in F.bodies:
            continue
        scope.add(x)
        todo += [k for k in F.bodies if k.startswith(x + "::{closure")]
        for bb, c in F.bodies[x].calls():
            n = name(c)
            if n.startswith(MOD) and n in F.bodies:
                todo.append(n)
    for x in sorted(scope):
        bd = F.bodies[x]
        for bb, c in bd.calls():
            n = name(c)
            if n.endswith("::chars") or n.endswith("::char_indices") or n.endswith("char::len_utf8") or n.endswith("methods::len_utf8"):
                units.add("scalar")
            if "utf16" in n:
                units.add("utf16")
            if n.endswith(("::is_char_boundary", "::is_utf8_char_boundary")):
                units.add("scalar")
        # a byte predicate `(b as i8) >= K` counts chars only for K = -0x40 (non-continuation bytes)
        for blk in bd.blocks:
            for st in blk[1]:
                if st[0] == "a" and st[2][0] == "bin" and st[2][1] in ("Ge", "Gt", "Lt", "Le"):
                    ops = st[2][2:4]
                    ks = [o for o in ops if o[0] == "k" and o[1] == "int"]
                    casted = any(o[0] in ("c", "m") and bd.local_ty_str(o[1][0]) == "i8" for o in ops)
                    if ks and casted:
                        k = ks[0][2]
                        boundary = (st[2][1] == "Ge" and k == -64) or (st[2][1] == "Gt" and k == -65) or \
                                   (st[2][1] == "Lt" and k == -64) or (st[2][1] == "Le" and k == -65)   # the negated forms count continuation bytes
                        units.add("scalar" if boundary else "bytes-by-predicate(i8 %s %d)" % (st[2][1], k))
    chk.unit("functions implementing the column unit", len(scope))
    chk.floor("LineIndex column functions", nfun, 3)
    declared = set()
    nreg = 0
    import prov as _prov
    P = _prov.Prov(F, follow_returns=True, max_depth=24)
    dynamic = []   # (body, line, labels) of declarations whose value is not a constant encoding

    def classify(b, labels, line):
        nonconst = []
        for lab in labels:
            txt = str(lab[1])
            if lab[0] in ("CONST", "FN"):
                if "UTF32" in txt or "utf-32" in txt:
                    declared.add("scalar")
                elif "UTF16" in txt or "utf-16" in txt:
                    declared.add("utf16")
                elif "UTF8" in txt or "utf-8" in txt:
                    declared.add("utf8")
                # other constants (None discriminants, unit) declare nothing
            else:
                nonconst.append("%s:%s" % (lab[0], txt.split("::")[-1]))
        if nonconst:
            dynamic.append((b, line, sorted(set(nonconst))))

    for b in F.bodies.values():
        if b.crate != "emmylua_ls":
            continue
        if b.id.endswith("::register_capabilities"):
            nreg += 1
        for blk in b.blocks:
            for st in blk[1]:
                if st[0] == "a" and any(isinstance(e, list) and e[0] == "f" and e[2] == "position_encoding" for e in st[1][1:]):
                    rv = st[2]
                    txt = repr(rv)
                    if rv[0] == "agg" and rv[3] == "None":
                        continue
                    labs = set()
                    if rv[0] == "use":
                        labs = P.operand_labels(b, rv[1])
                    elif rv[0] == "agg":
                        for op in rv[4]:
                            labs |= P.operand_labels(b, op)
                    else:
                        labs = {("OTHER", txt[:60])}
                    if "UTF32" in txt:
                        declared.add("scalar")
                    elif "UTF16" in txt:
                        declared.add("utf16")
                    elif "UTF8" in txt:
                        declared.add("utf8")
                    classify(b, labs, st[3] if len(st) > 3 else None)
            t = blk[2]
            if t[0] == "call" and any(isinstance(e, list) and e[0] == "f" and e[2] == "position_encoding" for e in t[1]["d"][1:]):
                callee = name(t[1])
                if callee in F.bodies:
                    classify(b, P.labels(F.bodies[callee], 0), t[1]["l"])
                else:
                    labs = set()
                    for a in t[1]["a"]:
                        labs |= P.operand_labels(b, a)
                    classify(b, labs or {("CALL", callee)}, t[1]["l"])
    for b, line, labs in dynamic:
        chk.violation("R23a", "position-encoding-dynamic",
                      "the declared positionEncoding is computed from %s, not fixed to the unit the server implements (%s): whenever the "
                      "computed value differs (e.g. the client's first offered encoding is utf-8) every non-ASCII column is wrong in both "
                      "directions" % (labs[:4], sorted(units)), b.loc(line), witness={"sources": labs})
    chk.floor("register_capabilities impls", nreg, 20)
    if not declared:
        declared = {"utf16"}  # protocol default when positionEncoding is absent
        how = "absent (protocol default UTF-16)"
    else:
        how = "explicit"
    chk.check(bool(units) and units <= declared, "R23a", "position-encoding:implemented=%s;declared=%s" % ("+".join(sorted(units)), "+".join(sorted(declared))),
              "the server counts `character` in %s units but declares %s (%s): for any line with a character outside the BMP "
              "every position after it is off by one per such character" % (sorted(units), sorted(declared), how),
              F.bodies[LI + "::get_col"].loc() if LI + "::get_col" in F.bodies else None,
              witness={"implemented": sorted(units), "declared": sorted(declared), "declaration": how})
    # R23b
    p = F.bodies.get(LI + "::parse")
    if p is None:
        raise RuleBroken("LineIndex::parse not found")
    eq_consts = set()
    for blk in p.blocks:
        for st in blk[1]:
            if st[0] == "a" and st[2][0] == "bin" and st[2][1] == "Eq":
                for o in st[2][2:4]:
                    if o[0] == "k" and o[1] == "int":
                        eq_consts.add(o[2])
        t = blk[2]
        if t[0] == "sw":
            for v, _ in t[2]:
                if isinstance(v, int) and v in (10, 13):
                    eq_consts.add(v)
    chk.check(10 in eq_consts, "R23b", "lf", "LineIndex::parse no longer splits at '\\n'", p.loc())
    chk.check(13 in eq_consts, "R23b", "lone-cr",
              "LineIndex::parse splits lines only at %s: a lone '\\r' (a line terminator for LSP clients) does not start a "
              "new line, so every position after it is reported on the wrong line" % sorted(eq_consts), p.loc(),
              witness={"terminator_bytes": sorted(eq_consts)})
    chk.explanation = "Reads the implemented unit from the callees of the column functions and the declared one from the capability registration; compares byte constants of LineIndex::parse with the protocol's terminator set."
