"""C20: configuration gating structure of diagnostics.

R20a  for every impl Checker for T: the DiagnosticCode constants that can reach the `code` argument of
      DiagnosticContext::add_diagnostic from T::check's call tree are a subset of T::CODES (otherwise enabling just
      that code never runs the checker, since run_check gates on CODES).
R20b  every impl Checker is instantiated exactly once in check_file; every DiagnosticCode variant is in some
      registered CODES or in the reserved table.
R20c  lsp Diagnostic values reach DiagnosticContext.diagnostics only through add_diagnostic, where the push is
      guarded by is_checker_enable_by_code and should_report_diagnostic (their false edges cannot reach the push)
      and severity comes from get_severity, which consults config.severity before the default.
R20d  diagnose_file: check_file is unreachable when `enable` is false and for non-main workspaces; the precedence
      chain of is_checker_enable_by_code as path-order constraints.
R20e  undefined_global: the add_diagnostic(UndefinedGlobal) site is guarded by the globals / globals-regex tests.
"""
import cfgutil
import callgraph
import guards
import prov
from report import RuleBroken

CA = "emmylua_code_analysis"
CHECKER = CA + "::diagnostic::checker::Checker"
CTX = CA + "::diagnostic::checker::DiagnosticContext"
ADD = CTX + "::add_diagnostic"
CODE = CA + "::diagnostic::lua_diagnostic_code::DiagnosticCode"
CHECK_FILE = CA + "::diagnostic::checker::check_file"
RUN_CHECK = CA + "::diagnostic::checker::run_check"

# DiagnosticCode variants that no checker claims today (read from the enum on the pinned tree; they are
# emitted by nothing or are placeholders).  A code moving out of a checker's CODES is NOT covered by this table.
RESERVED = {
    "UnreachableCode": "no checker emits it on the pinned tree (only mentioned in get_tags)",
    "RedefinedLabel": "no checker emits it on the pinned tree",
    "CodeStyleCheck": "umbrella name, no checker emits it on the pinned tree",
    "None": "sentinel value, never reported",
}

ANALYZE_ERROR = CA + "::db_index::diagnostic::analyze_error::AnalyzeError"


def checker_impls(F):
    res = {}
    for im in F.impls_of(CHECKER):
        t = im["_types"][im["self"]]
        items = {i[0].split("::")[-1]: i[0] for i in im["items"]}
        res[t[3]] = items
    return res


def codes_of(F, codes_id):
    out = []
    for bid, b in F.bodies.items():
        if bid.startswith(codes_id + "::{promoted") or bid == codes_id:
            for blk in b.blocks:
                for st in blk[1]:
                    if st[0] == "a" and st[2][0] == "agg" and st[2][1] == "adt" and st[2][2] == CODE:
                        out.append(st[2][3])
    return out


_FIELD_CACHE = {}


def stored_codes(F, adt_suffix, field):
    """DiagnosticCode constants stored into field `field` of every aggregate of the ADT anywhere in the workspace
    (through constructor parameters, all callers)"""
    key = (adt_suffix, field)
    if key in _FIELD_CACHE:
        return _FIELD_CACHE[key]
    P = prov.Prov(F, source=code_source, follow_returns=True)
    out = set()
    for b in F.bodies.values():
        if b.id.endswith(" as core::clone::Clone>::clone"):
            continue  # a copy of an existing value introduces no new constant
        for blk in b.blocks:
            for st in blk[1]:
                if st[0] == "a" and st[2][0] == "agg" and st[2][1] == "adt" and (st[2][2] or "").endswith(adt_suffix):
                    adt = F.adts.get(st[2][2])
                    if not adt:
                        continue
                    names = [f["name"] for f in adt["variants"][0]["fields"]]
                    if field in names:
                        out |= P.operand_labels(b, st[2][4][names.index(field)])
    _FIELD_CACHE[key] = out
    return out


def make_source(F):
    def src(b, r):
        s = code_source(b, r)
        if s is not None:
            return s
        if r[0] == "place" and "AnalyzeError" in b.local_ty_str(r[1]) and \
                any(isinstance(e, tuple) and e[0] == "f" and e[2] == "kind" for e in r[2]):
            return stored_codes(F, "::AnalyzeError", "kind")
        return None
    return src


def code_source(b, r):
    if r[0] == "agg":
        st = b.blocks[r[1]][1][r[2]]
        if st[2][1] == "adt" and st[2][2] == CODE:
            return {("CODE", st[2][3])}
    return None


def run(chk, F, tier):
    chk.rule("R20a", "emitted codes of every checker are a subset of its CODES (run_check gates on CODES)")
    chk.rule("R20b", "every impl Checker registered exactly once in check_file; every DiagnosticCode variant claimed or reserved")
    chk.rule("R20c", "single gated constructor: add_diagnostic guards the push by enable+suppression tests; severity from config first")
    chk.rule("R20d", "diagnose_file gating (enable flag, non-main workspace) and precedence order in is_checker_enable_by_code")
    chk.rule("R20e", "undefined-global report guarded by globals / globalsRegex")
    chk.assume("decides the gating structure, not per-program outcomes")
    impls = checker_impls(F)
    chk.floor("Checker impls", len(impls), 41)
    cg = callgraph.CallGraph(F)
    cf = F.bodies.get(CHECK_FILE)
    if cf is None:
        raise RuleBroken("check_file not found")

    # ---- R20b registrations
    reg = {}
    for bb, c in cf.calls():
        if (c.get("r") or c.get("f")) == RUN_CHECK and c.get("ga"):
            t = cf.ty(c["ga"][0])
            reg[t[3]] = reg.get(t[3], 0) + 1
    for T in sorted(impls):
        chk.check(reg.get(T, 0) == 1, "R20b", "registered:%s" % T.split("::")[-1],
                  "checker %s is registered %d times in check_file (expected exactly once)" % (T, reg.get(T, 0)), cf.loc(),
                  sample={"rule": "R20b", "checker": T.split("::")[-1], "verdict": "registered once"})
    for T in sorted(reg):
        chk.check(T in impls, "R20b", "known:%s" % T.split("::")[-1], "check_file runs %s which has no Checker facts" % T, cf.loc())

    # ---- R20a
    all_codes = set()
    adt = F.adts.get(CODE)
    if adt is None:
        raise RuleBroken("DiagnosticCode enum not found")
    variants = [v["name"] for v in adt["variants"]]
    n_sites = 0
    claimed = {}
    for T, items in sorted(impls.items()):
        tn = T.split("::")[-1]
        if "CODES" not in items or "check" not in items:
            raise RuleBroken("impl Checker for %s lacks CODES or check" % T)
        codes = set(codes_of(F, items["CODES"]))
        if not codes:
            chk.violation("R20a", "codes:%s" % tn, "could not evaluate %s::CODES" % T, None)
            continue
        for c in codes:
            claimed.setdefault(c, []).append(tn)
        reach = cg.reachable([items["check"]])
        P = prov.Prov(F, source=make_source(F), caller_filter=reach, follow_returns=True)
        emitted = {}
        unknown = []
        for bid in reach:
            b = F.bodies.get(bid)
            if b is None or b.crate != CA:
                continue
            for bb, c in b.calls():
                if (c.get("r") or c.get("f")) != ADD:
                    continue
                n_sites += 1
                ls = P.operand_labels(b, c["a"][1])
                for l in ls:
                    if l[0] == "CODE":
                        emitted.setdefault(l[1], b.loc(c["l"]))
                    else:
                        unknown.append((b.loc(c["l"]), l))
        for code, where in sorted(emitted.items()):
            chk.check(code in codes, "R20a", "%s:%s" % (tn, code),
                      "%s can emit DiagnosticCode::%s (at %s) but its CODES = %s: with only that code enabled the checker "
                      "never runs, so `enables` cannot turn it on" % (tn, code, where, sorted(codes)), where,
                      witness={"checker": T, "emits": code, "CODES": sorted(codes)},
                      sample={"rule": "R20a", "checker": tn, "emits": code, "CODES": sorted(codes), "verdict": "subset"})
        # codes whose origin cannot be determined statically
        bad = [u for u in unknown if u[1][0] not in ("CODE",)]
        chk.check(not bad, "R20a", "%s:determinate" % tn,
                  "the code argument of add_diagnostic in %s's call tree cannot be resolved to constants: %s" % (tn, bad[:3]),
                  bad[0][0] if bad else None, witness={"unresolved": [str(x) for x in bad[:6]]})
        chk.check(bool(emitted) or tn in ("SyntaxErrorChecker",), "R20a", "%s:emits" % tn,
                  "no add_diagnostic call reachable from %s::check (call graph lost?)" % tn, None)
    chk.floor("add_diagnostic call sites", n_sites, 75)
    for v in variants:
        chk.check(v in claimed or v in RESERVED, "R20b", "claimed:%s" % v,
                  "DiagnosticCode::%s belongs to no registered checker's CODES: it can never be enabled" % v, None,
                  sample={"rule": "R20b", "code": v, "checkers": claimed.get(v), "verdict": "claimed"})

    # ---- R20c single constructor
    add = F.bodies.get(ADD)
    if add is None:
        raise RuleBroken("add_diagnostic not found")
    DIAG = "emmy_lsp_types::Diagnostic"
    ctors = []
    pushes = []
    for b in F.bodies.values():
        if b.crate != CA or not b.id.startswith(CA + "::diagnostic"):
            continue
        for bi, blk in enumerate(b.blocks):
            if blk[0]:
                continue
            for st in blk[1]:
                if st[0] == "a" and st[2][0] == "agg" and st[2][1] == "adt" and (st[2][2] or "").endswith("::Diagnostic") \
                        and (st[2][2] or "").startswith("emmy_lsp_types"):
                    ctors.append((b, bi))
    for b, bi in ctors:
        chk.check(b.id == ADD, "R20c", "ctor@%s" % b.id,
                  "an lsp Diagnostic is constructed outside DiagnosticContext::add_diagnostic (in %s): it bypasses the "
                  "enable/suppress/severity gate" % b.id, b.loc())
    chk.floor("Diagnostic constructors in diagnostic module", len(ctors), 1)
    # who writes DiagnosticContext.diagnostics
    for b in F.bodies.values():
        if b.crate != CA:
            continue
        for blk in b.blocks:
            for st in blk[1]:
                if st[0] == "a" and st[2][0] == "ref" and st[2][1] == "m":
                    pl = st[2][2]
                    if any(isinstance(e, list) and e[0] == "f" and e[2] == "diagnostics" for e in pl[1:]) and \
                            "DiagnosticContext" in b.local_ty_str(pl[0]):
                        pushes.append(b)
    for b in pushes:
        chk.check(b.id == ADD, "R20c", "writer@%s" % b.id,
                  "DiagnosticContext.diagnostics is mutated outside add_diagnostic (in %s)" % b.id, b.loc())
    chk.floor("writers of DiagnosticContext.diagnostics", len(pushes), 1)
    succ = add.succ_map()
    push_bbs = {bb for bb, c in add.calls() if (c.get("r") or c.get("f") or "").startswith("alloc::vec::Vec") and (c.get("r") or c.get("f") or "").endswith("::push")}
    if not push_bbs:
        raise RuleBroken("no Vec::push in add_diagnostic")
    for gname in ("is_checker_enable_by_code", "should_report_diagnostic"):
        gb = [bb for bb, c in add.calls() if (c.get("r") or c.get("f")) == CTX + "::" + gname]
        if not gb:
            chk.violation("R20c", "guard:" + gname, "add_diagnostic no longer calls %s" % gname, add.loc())
            continue
        ok = True
        wit = None
        for g in gb:
            br = guards.bool_branch(add, g)
            if br is None:
                ok = False
                wit = "result of %s is not branched on" % gname
                break
            t_true, t_false = br
            if cfgutil.reachable(succ, t_false) & push_bbs:
                ok = False
                wit = "push reachable from the false edge"
        p = cfgutil.paths_avoiding(succ, 0, push_bbs, set(gb))
        chk.check(ok and p is None, "R20c", "guard:" + gname,
                  "the push in add_diagnostic is not guarded by %s (%s)" % (gname, wit or "a path avoids the test"), add.loc(),
                  witness={"path_blocks": p}, sample={"rule": "R20c", "guard": gname, "verdict": "dominates push, false edge returns"})
    # severity from get_severity
    sev_ok = False
    for blk in add.blocks:
        for st in blk[1]:
            if st[0] == "a" and st[2][0] == "agg" and (st[2][2] or "").endswith("::Diagnostic"):
                fields = st[2][5] if len(st[2]) > 5 else F_adt_fields(F, st[2][2])
                if fields and "severity" in fields:
                    op = st[2][4][fields.index("severity")]
                    P = prov.Prov(F)
                    import dataflow
                    l = dataflow.operand_local(op)
                    rs = dataflow.roots(add, l) if l is not None else set()
                    sev_ok = bool(rs) and all(r[0] == "call" and (add.blocks[r[1]][2][1].get("r") or "") == CTX + "::get_severity" for r in rs)
    chk.check(sev_ok, "R20c", "severity-from-get_severity", "Diagnostic.severity is not taken from get_severity", add.loc())
    gs = F.bodies.get(CTX + "::get_severity")
    if gs is None:
        raise RuleBroken("get_severity not found")
    cfg_get = {bb for bb, c in gs.calls() if "HashMap" in (c.get("r") or c.get("f") or "") and (c.get("r") or c.get("f") or "").endswith("::get")}
    dflt = {bb for bb, c in gs.calls() if (c.get("r") or c.get("f") or "").endswith("::get_default_severity")}
    p = cfgutil.paths_avoiding(gs.succ_map(), 0, dflt, cfg_get) if dflt else None
    chk.check(bool(cfg_get) and bool(dflt) and p is None, "R20c", "severity-override-first",
              "get_severity can fall back to the default severity without consulting config.severity", gs.loc())

    # ---- R20d
    df = F.bodies.get(CA + "::diagnostic::lua_diagnostic::LuaDiagnostic::diagnose_file")
    if df is None:
        raise RuleBroken("diagnose_file not found")
    succ = df.succ_map()
    cfb = {bb for bb, c in df.calls() if (c.get("r") or c.get("f")) == CHECK_FILE}
    chk.check(bool(cfb), "R20d", "diagnose_file:calls-check_file", "diagnose_file does not call check_file", df.loc())
    # enable flag: a switch on a copy of (*self).enable whose zero edge cannot reach check_file
    en_ok = False
    for bi, blk in enumerate(df.blocks):
        t = blk[2]
        if t[0] != "sw":
            continue
        op = t[1]
        src = None
        if op[0] in ("c", "m"):
            pl = op[1]
            if len(pl) == 1:
                import dataflow
                for r in dataflow.roots(df, pl[0]):
                    if r[0] == "place" and any(isinstance(e, tuple) and e[0] == "f" and e[2] == "enable" for e in r[2]):
                        src = "enable"
                    if r[0] == "other":
                        st = df.blocks[r[1]][1][r[2]]
                        if st[2][0] == "un" and st[2][1] == "Not":
                            o = st[2][2]
                            if o[0] in ("c", "m") and any(isinstance(e, list) and e[0] == "f" and e[2] == "enable" for e in o[1][1:]):
                                src = "not-enable"
            elif any(isinstance(e, list) and e[0] == "f" and e[2] == "enable" for e in pl[1:]):
                src = "enable"
        if src:
            zero = [tb for v, tb in t[2] if v == 0]
            other = t[3]
            disabled_edge = zero[0] if src == "enable" else other
            if zero and not (cfgutil.reachable(succ, disabled_edge) & cfb):
                en_ok = True
    chk.check(en_ok, "R20d", "diagnose_file:enable-flag",
              "check_file is reachable when diagnostics.enable is false", df.loc())
    # non-main workspace: is_main() false edge must not reach check_file
    ism = [bb for bb, c in df.calls() if (c.get("r") or c.get("f") or "").endswith("WorkspaceId::is_main")]
    ok = bool(ism)
    for g in ism:
        br = guards.bool_branch(df, g)
        if br is None or (cfgutil.reachable(succ, br[1]) & cfb):
            ok = False
    chk.check(ok, "R20d", "diagnose_file:non-main-skipped",
              "check_file is reachable for files of non-main (library/std) workspaces", df.loc())
    # precedence in is_checker_enable_by_code
    ice = F.bodies.get(CTX + "::is_checker_enable_by_code")
    if ice is None:
        raise RuleBroken("is_checker_enable_by_code not found")
    succ = ice.succ_map()

    def test_blocks(pred):
        return [bb for bb, c in ice.calls() if pred(c, bb)]

    def on_field(c, field):
        # receiver derived from self.config.<field>
        import dataflow
        if not c["a"]:
            return False
        l = dataflow.operand_local(c["a"][0])
        if l is None:
            return False
        P2 = prov.Prov(F, source=lambda b, r: ({("FIELD", [e[2] for e in r[2] if isinstance(e, tuple) and e[0] == "f"][-1])}
                                              if r[0] == "place" and any(isinstance(e, tuple) and e[0] == "f" for e in r[2]) else None))
        return ("FIELD", field) in P2.labels(ice, l)

    name = lambda c: (c.get("r") or c.get("f") or "")
    T_file_en = test_blocks(lambda c, bb: name(c).endswith("DiagnosticIndex::is_file_enabled"))
    T_ws_dis = test_blocks(lambda c, bb: name(c).endswith("::contains") and on_field(c, "workspace_disabled"))
    T_meta = test_blocks(lambda c, bb: name(c).endswith("LuaModuleIndex::is_meta_file"))
    T_file_dis = test_blocks(lambda c, bb: name(c).endswith("DiagnosticIndex::is_file_disabled"))
    T_ws_en = test_blocks(lambda c, bb: name(c).endswith("::contains") and on_field(c, "workspace_enabled"))
    T_default = test_blocks(lambda c, bb: name(c).endswith("is_code_default_enable"))
    tests = {"file_enable": T_file_en, "workspace_disable": T_ws_dis, "meta": T_meta, "file_disable": T_file_dis,
             "workspace_enables": T_ws_en, "default": T_default}
    for k, v in tests.items():
        chk.check(len(v) >= 1, "R20d", "precedence:has-%s" % k, "is_checker_enable_by_code no longer evaluates the %s test" % k, ice.loc())
    if all(tests.values()):
        # every `false` test must be evaluated (and have answered false) before workspace_enables/default can say true
        for late_name, late in (("workspace_enables", T_ws_en), ("default", T_default)):
            for early_name, early in (("workspace_disable", T_ws_dis), ("meta", T_meta), ("file_disable", T_file_dis)):
                p = cfgutil.paths_avoiding(succ, 0, set(late), set(early))
                ok = p is None
                # and the early test's true edge must not reach the late test
                for e in early:
                    br = guards.bool_branch(ice, e)
                    if br is None or (cfgutil.reachable(succ, br[0]) & set(late)):
                        ok = False
                chk.check(ok, "R20d", "precedence:%s<%s" % (early_name, late_name),
                          "%s can grant the code although the %s test has not vetoed first" % (late_name, early_name), ice.loc(),
                          sample={"rule": "R20d", "order": "%s before %s" % (early_name, late_name), "verdict": "holds on every path"})
        # file-level enable is the only `true` that may precede workspace_disable
        p = cfgutil.paths_avoiding(succ, 0, set(T_ws_dis), set(T_file_en))
        chk.check(p is None, "R20d", "precedence:file_enable-first", "the file-level enable is not consulted before the workspace disable list", ice.loc())
        for e in T_file_en:
            br = guards.bool_branch(ice, e)
            ok = br is not None and not (cfgutil.reachable(succ, br[0]) & set(T_ws_dis + T_meta + T_file_dis))
            chk.check(ok, "R20d", "precedence:file_enable-wins", "a file-level `---@diagnostic enable` can still be vetoed", ice.loc())

    # ---- R20e undefined_global
    n_e = 0
    for b in F.bodies.values():
        if not b.id.startswith(CA + "::diagnostic::checker::undefined_global"):
            continue
        P = prov.Prov(F, source=code_source)
        for bb, c in b.calls():
            if (c.get("r") or c.get("f")) != ADD:
                continue
            if ("CODE", "UndefinedGlobal") not in P.operand_labels(b, c["a"][1]):
                continue
            n_e += 1
            succ = b.succ_map()
            # guards: a lookup in config.global_disable_set and a regex match over global_disable_glob must precede
            set_tests = [x for x, cc in b.calls() if name(cc).endswith("::contains") and "HashSet" in name(cc)]
            re_tests = [x for x, cc in b.calls() if "Regex" in name(cc) and name(cc).endswith("::is_match")]
            re_in_closure = any("Regex" in name(cc) and name(cc).endswith("::is_match") for x in cg.reachable([b.id]) if x in F.bodies
                                for _, cc in F.bodies[x].calls())
            p1 = cfgutil.paths_avoiding(succ, 0, {bb}, set(set_tests)) if set_tests else [0]
            chk.check(p1 is None, "R20e", "globals-set@%s" % b.id, "UndefinedGlobal reported without consulting diagnostics.globals", b.loc(c["l"]))
            chk.check(bool(re_tests) or re_in_closure, "R20e", "globals-regex@%s" % b.id,
                      "UndefinedGlobal reported without consulting diagnostics.globalsRegex", b.loc(c["l"]))
    chk.floor("UndefinedGlobal report sites", n_e, 1)
    # ---- R20f: every configured severity override is copied into the diagnostic configuration ------------------------------------
    import cfgutil as _cfg
    import dataflow as _df
    chk.rule("R20f", "LuaDiagnosticConfig::new copies every entry of diagnostics.severity: no filter between the configured map and the effective one "
                     "(a code that is disabled in the workspace but re-enabled by a file must still get its configured severity)")
    cfgnew = F.bodies.get("emmylua_code_analysis::diagnostic::lua_diagnostic_config::LuaDiagnosticConfig::new")
    if cfgnew is None:
        raise RuleBroken("LuaDiagnosticConfig::new not found")
    bodies = [cfgnew] + [x for k, x in F.bodies.items() if k.startswith(cfgnew.id + "::{closure")]
    # iterators over the `severity` field
    sev_iter_locals = set()
    for blk in cfgnew.blocks:
        for st in blk[1]:
            if st[0] == "a" and len(st[1]) == 1 and st[2][0] == "ref" and any(isinstance(e, list) and e[0] == "f" and e[2] == "severity" for e in st[2][2][1:]):
                sev_iter_locals.add(st[1][0])
    changed = True
    while changed:
        changed = False
        for blk in cfgnew.blocks:
            for st in blk[1]:
                if st[0] == "a" and len(st[1]) == 1 and st[1][0] not in sev_iter_locals and st[2][0] in ("use", "ref"):
                    srcp = st[2][2] if st[2][0] == "ref" else (st[2][1][1] if st[2][1][0] in ("c", "m") else None)
                    if srcp and srcp[0] in sev_iter_locals:
                        sev_iter_locals.add(st[1][0])
                        changed = True
            t = blk[2]
            if t[0] == "call" and len(t[1]["d"]) == 1 and t[1]["d"][0] not in sev_iter_locals and t[1]["a"] and \
                    t[1]["a"][0][0] in ("c", "m") and t[1]["a"][0][1][0] in sev_iter_locals:
                sev_iter_locals.add(t[1]["d"][0])
                changed = True
    chk.floor("values derived from diagnostics.severity in LuaDiagnosticConfig::new", len(sev_iter_locals), 2)
    filt = [c for bb, c in cfgnew.calls() if (c.get("r") or c.get("f") or "").split("::")[-1] in ("filter", "filter_map", "take_while", "skip_while", "take", "skip", "step_by")
            and c["a"] and c["a"][0][0] in ("c", "m") and c["a"][0][1][0] in sev_iter_locals]
    ok = not filt
    why = "an iterator adaptor (%s) drops entries" % [(c.get("r") or c.get("f")).split("::")[-1] for c in filt] if filt else ""
    # loop form: every iteration inserts
    succ = cfgnew.succ_map()
    loops = _cfg.natural_loops(succ, 0)
    for h, body in loops.items():
        nexts = [x for x in body if cfgnew.blocks[x][2][0] == "call" and (cfgnew.blocks[x][2][1].get("f") or "").endswith("Iterator::next") and
                 cfgnew.blocks[x][2][1]["a"] and cfgnew.blocks[x][2][1]["a"][0][0] in ("c", "m") and cfgnew.blocks[x][2][1]["a"][0][1][0] in sev_iter_locals]
        if not nexts:
            continue
        ins = {x for x in body if cfgnew.blocks[x][2][0] == "call" and (cfgnew.blocks[x][2][1].get("r") or cfgnew.blocks[x][2][1].get("f") or "").endswith("::insert")}
        for nb in nexts:
            t = cfgnew.blocks[nb][2][1]
            # the Some edge of next(): follow to the switch
            sub = {x: [y for y in succ[x] if y in body] for x in body}
            some = None
            cur = t["t"]
            for _ in range(3):
                tt = cfgnew.blocks[cur][2]
                if tt[0] == "sw":
                    some = [tb for v, tb in tt[2] if v == 1] or [tt[3]]
                    break
                if tt[0] in ("goto", "fe", "fu"):
                    cur = tt[1]
                else:
                    break
            for s0 in some or []:
                p_ = _cfg.paths_avoiding(sub, s0, {h}, ins)
                if p_ is not None:
                    ok = False
                    why = "an iteration over diagnostics.severity can skip the insert"
    chk.check(ok, "R20f", "severity-copied-unfiltered",
              "LuaDiagnosticConfig::new does not copy every configured severity override (%s): a code whose override was dropped is reported with its default "
              "severity when a file re-enables it" % why, cfgnew.loc(), sample={"rule": "R20f", "verdict": "every entry copied"})

    # ---- R20g: a named `---@meta module` file stays meta -----------------------------------------------------------------------------------
    chk.rule("R20g", "analyze_doc_tag_meta marks the file as meta after every re-registration of its module info (add_module_by_module_path builds a fresh "
                     "ModuleInfo with is_meta = false)")
    am = F.bodies.get("emmylua_code_analysis::compilation::analyzer::decl::docs::analyze_doc_tag_meta")
    if am is None:
        raise RuleBroken("analyze_doc_tag_meta not found")
    succ = am.succ_map()
    regs = [bb for bb, c in am.calls() if (c.get("r") or c.get("f") or "").endswith("LuaModuleIndex::add_module_by_module_path")]
    metas = {bb for bb, c in am.calls() if (c.get("r") or c.get("f") or "").endswith("LuaModuleIndex::set_meta")}
    chk.floor("module re-registrations in analyze_doc_tag_meta", len(regs), 1)
    for i, rb in enumerate(regs):
        p_ = _cfg.paths_avoiding(succ, am.blocks[rb][2][1]["t"], set(am.returns()), metas)
        chk.check(p_ is None, "R20g", "meta-after-register#%d" % (i + 1),
                  "analyze_doc_tag_meta re-registers the file's module (add_module_by_module_path) and can return without set_meta afterwards: a "
                  "`---@meta some.module` file loses its meta flag and is diagnosed like ordinary code", am.loc(am.blocks[rb][2][1]["l"]),
                  witness={"path_blocks": p_}, sample={"rule": "R20g", "verdict": "set_meta follows on every path"})
    chk.explanation = ("Constant propagation of DiagnosticCode through each checker's call tree against its CODES; "
                       "registration table; dominance/guard-edge checks on the single diagnostic constructor, "
                       "diagnose_file and the precedence chain.")


def F_adt_fields(F, path):
    # external struct: field order from an emmyfacts ADT record if local, else from lsp_types' known order
    adt = F.adts.get(path)
    if adt:
        return [f["name"] for f in adt["variants"][0]["fields"]]
    if path.endswith("::Diagnostic"):
        return ["range", "severity", "code", "code_description", "source", "message", "related_information", "tags", "data"]
    return None
