"""C21 (message and forwarding clauses).

R21a  every translated message is fully rendered: for each t!(key, a = .., ..) call site in emmylua_parser and
      emmylua_code_analysis (recovered from MIR: key constant, replace_patterns name array), the placeholders of the key
      and of every translation of the key in the crate's locale files are a subset of the supplied names.
R21b  SyntaxErrorChecker::check forwards every parse error: in the loop over get_file_parse_error() each iteration calls
      add_diagnostic with the error's own range and message on every path, mapping both error kinds to codes in CODES.
R21c  every diagnostic gets its code from DiagnosticCode::get_name and a Some severity (single constructor, C20).
"""
import os
import re
import cfgutil
import dataflow
from report import RuleBroken

PH = re.compile(r"%\{([A-Za-z0-9_]+)\}")
CRATES = {"emmylua_parser": "crates/emmylua_parser/locales", "emmylua_code_analysis": "crates/emmylua_code_analysis/locales"}


def name(c):
    return c.get("r") or c.get("f") or ""


def load_locales(repo, rel):
    import yaml
    tr = {}
    d = os.path.join(repo, rel)
    n = 0
    for root, _, files in os.walk(d):
        for f in sorted(files):
            if not f.endswith((".yml", ".yaml")):
                continue
            with open(os.path.join(root, f), encoding="utf-8") as fh:
                data = yaml.safe_load(fh) or {}
            for k, v in data.items():
                if k == "_version" or not isinstance(v, dict):
                    continue
                n += 1
                tr.setdefault(str(k), {}).update({str(l): str(t) for l, t in v.items()})
    return tr, n


def str_const_of(b, op):
    if op[0] == "k" and op[1] == "str":
        return op[2]
    l = dataflow.operand_local(op)
    if l is None:
        return None
    for r in dataflow.roots(b, l):
        if r[0] == "const":
            return r[1]
    return None


def names_of(F, b, op):
    """the &[&str] pattern-name array of replace_patterns: a promoted constant"""
    l = dataflow.operand_local(op)
    if l is None:
        return None
    for r in dataflow.roots(b, l):
        if r[0] == "const" and "{promoted#" in r[1]:
            pb = F.bodies.get(r[1])
            if pb is None:
                return None
            env = {}
            for blk in pb.blocks:
                for st in blk[1]:
                    if st[0] != "a" or len(st[1]) != 1:
                        continue
                    rv = st[2]
                    if rv[0] == "use" and rv[1][0] == "k" and rv[1][1] == "str":
                        env[st[1][0]] = rv[1][2]
                    elif rv[0] == "ref" and rv[2][0] in env:        # reborrow `&*s`
                        env[st[1][0]] = env[rv[2][0]]
                    elif rv[0] == "use" and rv[1][0] in ("c", "m") and rv[1][1][0] in env:
                        env[st[1][0]] = env[rv[1][1][0]]
                    elif rv[0] == "agg" and rv[1] == "array":
                        out = []
                        for o in rv[4]:
                            if o[0] == "k" and o[1] == "str":
                                out.append(o[2])
                            elif o[0] in ("c", "m") and o[1][0] in env:
                                out.append(env[o[1][0]])
                            else:
                                return None   # a name that is not a constant: unknown
                        return out
    return None


def run(chk, F, tier):
    import facts
    chk.rule("R21a", "placeholders(key) and placeholders(every translation) are a subset of the names supplied at each t! site")
    chk.rule("R21b", "SyntaxErrorChecker forwards every parse error with its own range/message; both kinds map into CODES")
    chk.rule("R21c", "diagnostic code string from DiagnosticCode::get_name, severity always Some")
    chk.assume("decides message rendering and forwarding, not range-inside-document / start<=end for arbitrary checkers nor duplicates")
    nsites = 0
    nkeys = 0
    for crate, rel in CRATES.items():
        tr, nk = load_locales(facts.REPO, rel)
        nkeys += nk
        for b in F.bodies.values():
            if b.crate != crate:
                continue
            trans = {}
            reps = {}
            for bb, c in b.calls():
                n = name(c)
                if n.endswith("::_rust_i18n_try_translate") or n.endswith("::_rust_i18n_translate"):
                    key = str_const_of(b, c["a"][-1])
                    if key is not None:
                        trans.setdefault(c["l"], set()).add(key)
                elif n == "rust_i18n::replace_patterns":
                    nm = names_of(F, b, c["a"][1])
                    reps.setdefault(c["l"], []).append(nm)
            for line, keys in trans.items():
                for key in keys:
                    nsites += 1
                    supplied = set()
                    unknown = False
                    for nm in reps.get(line, []):
                        if nm is None:
                            unknown = True
                        else:
                            supplied |= set(nm)
                    need = set(PH.findall(key))
                    site = "%s@%s" % (key[:40], b.id.split("::")[-1])
                    bad = {}
                    if not need <= supplied and not unknown:
                        bad["key"] = sorted(need - supplied)
                    for lang, text in tr.get(key, {}).items():
                        extra = set(PH.findall(text)) - supplied
                        if extra and not unknown:
                            bad[lang] = sorted(extra)
                    chk.check(not bad, "R21a", site,
                              "message %r is rendered with unsubstituted placeholders %s (supplied: %s)" % (key[:60], bad, sorted(supplied)),
                              b.loc(line), witness={"key": key, "missing": bad, "supplied": sorted(supplied)},
                              sample={"rule": "R21a", "key": key[:60], "supplied": sorted(supplied),
                                      "locales": sorted(tr.get(key, {})), "verdict": "fully rendered in every locale"})
    chk.floor("t! call sites", nsites, 250)
    chk.floor("locale keys", nkeys, 200)

    # R21b
    CA = "emmylua_code_analysis"
    sid = "<%s::diagnostic::checker::syntax_error::SyntaxErrorChecker as %s::diagnostic::checker::Checker>::check" % (CA, CA)
    b = F.bodies.get(sid)
    if b is None:
        raise RuleBroken("SyntaxErrorChecker::check not found")
    succ = b.succ_map()
    src = {bb for bb, c in b.calls() if name(c).endswith("::get_file_parse_error")}
    chk.check(bool(src), "R21b", "reads-parse-errors", "SyntaxErrorChecker no longer reads get_file_parse_error()", b.loc())
    loops = cfgutil.natural_loops(succ, 0)
    ADD = CA + "::diagnostic::checker::DiagnosticContext::add_diagnostic"
    ok = False
    for h, body in loops.items():
        nexts = [x for x in body if b.blocks[x][2][0] == "call" and (b.blocks[x][2][1].get("f") or "").endswith("Iterator::next")]
        if not nexts:
            continue
        # is this the loop over the parse errors?  its iterator derives from get_file_parse_error's result
        it_ok = False
        for x in nexts:
            c = b.blocks[x][2][1]
            l = dataflow.operand_local(c["a"][0])
            import prov
            P = prov.Prov(F, source=lambda bb_, r: ({("PE",)} if r[0] == "call" and r[1] in src else None))
            if l is not None and ("PE",) in P.labels(b, l):
                it_ok = True
        if not it_ok:
            continue
        adds = {x for x in body if b.blocks[x][2][0] == "call" and name(b.blocks[x][2][1]) == ADD}
        # every path from the Some-edge of next() back to the header passes add_diagnostic
        for x in nexts:
            nxt = b.blocks[x][2][1]["t"]
            # find the switch on the Option discriminant
            cur = nxt
            some_edge = None
            for _ in range(4):
                t = b.blocks[cur][2]
                if t[0] == "sw":
                    for v, tb in t[2]:
                        if v == 1:
                            some_edge = tb
                    if some_edge is None:
                        some_edge = t[3]
                    break
                if t[0] in ("goto", "fe", "fu"):
                    cur = t[1]
                else:
                    break
            if some_edge is None:
                continue
            p = cfgutil.paths_avoiding({k: [s for s in v if s in body] for k, v in enumerate(succ)}, some_edge, {h, x}, adds)
            ok = bool(adds) and p is None
    chk.check(ok, "R21b", "forwards-every-parse-error",
              "a parse error can pass through SyntaxErrorChecker's loop without being reported (filter or early continue)", b.loc(),
              sample={"rule": "R21b", "verdict": "add_diagnostic on every iteration path"})
    # both error kinds map to codes: the code operand of that add_diagnostic comes from the two constants
    # (subset of CODES is R20a's obligation for this checker)
    # R21c
    add = F.bodies.get(ADD)
    has_name = any(name(c).endswith("DiagnosticCode::get_name") for _, c in add.calls())
    chk.check(has_name, "R21c", "code-from-get_name", "add_diagnostic no longer derives the code string from DiagnosticCode::get_name", add.loc())
    gs = F.bodies.get(CA + "::diagnostic::checker::DiagnosticContext::get_severity")
    some_only = True
    for blk in gs.blocks:
        for st in blk[1]:
            if st[0] == "a" and st[1] == [0] and st[2][0] == "agg" and st[2][3] == "None":
                some_only = False
    chk.check(some_only, "R21c", "severity-always-some", "get_severity can return None", gs.loc())
    chk.explanation = "t! call sites recovered from MIR (key constant + replace_patterns name array) checked against the locale YAML files; loop-path analysis of SyntaxErrorChecker."

    # ---- R21d: line/column pairs of a published range come from the document's own line table ---------------------------
    chk.rule("R21d", "DiagnosticContext::translate_range takes every line and column of the LSP range from LuaDocument::get_line_col "
                     "(no arithmetic mixes byte lengths into character columns)")
    tr = F.bodies.get(CA + "::diagnostic::checker::DiagnosticContext::translate_range")
    if tr is None:
        raise RuleBroken("translate_range not found")
    comps = []
    for blk in tr.blocks:
        for st in blk[1]:
            if st[0] == "a" and st[2][0] == "agg" and st[2][1] == "adt" and (st[2][2] or "").endswith("::Position") and len(st[2][4]) == 2:
                comps += [(op, st[3] if len(st) > 3 else None) for op in st[2][4]]
    chk.floor("Position components built by translate_range", len(comps), 4)

    def comp_sources(b, op, depth=0, seen=None):
        """call names / 'arith' that the operand's value is computed from (casts and tuple payloads looked through)"""
        seen = seen if seen is not None else set()
        out = set()
        l = dataflow.operand_local(op)
        if l is None:
            return {"const"}
        todo = [l]
        while todo:
            x = todo.pop()
            if x in seen:
                continue
            seen.add(x)
            for r in dataflow.roots(b, x):
                if r[0] == "call":
                    c = b.blocks[r[1]][2][1]
                    n = name(c)
                    if n.endswith(("Try>::branch", "Into<U>>::into", "From<T>>::from")) and c["a"]:
                        la = dataflow.operand_local(c["a"][0])
                        if la is not None:
                            todo.append(la)
                        continue
                    out.add(n.split("::")[-1])
                elif r[0] == "place":
                    todo.append(r[1])
                elif r[0] == "other":
                    rv = b.blocks[r[1]][1][r[2]][2]
                    if rv[0] == "cast":
                        for y in rv[1:]:
                            if isinstance(y, list) and y and y[0] in ("c", "m"):
                                todo.append(y[1][0])
                    else:
                        out.add("arith:" + str(rv[0]) + (":" + str(rv[1]) if rv[0] in ("bin", "un") else ""))
                elif r[0] == "const":
                    out.add("const")
                elif r[0] == "arg":
                    out.add("arg")
                else:
                    out.add(str(r[0]))
        return out

    for i, (op, line) in enumerate(comps):
        src = comp_sources(tr, op)
        chk.check(src == {"get_line_col"}, "R21d", "position-component#%d" % (i + 1),
                  "a line/character of the range published for a diagnostic is computed from %s instead of LuaDocument::get_line_col alone: "
                  "columns are counted in characters, byte offsets/lengths diverge from them on non-ASCII lines and the range leaves the document"
                  % sorted(src), tr.loc(line), witness={"sources": sorted(src)},
                  sample={"rule": "R21d", "component": i + 1, "verdict": "from get_line_col"})

    # ---- R21e: the parse errors handed to the syntax-error checker are all of the tree's errors ------------------------------
    chk.rule("R21e", "Vfs::get_file_parse_error returns None only when the tree is missing or LuaSyntaxTree::get_errors() is empty, and "
                     "otherwise returns that whole list")
    gp = F.bodies.get(CA + "::vfs::Vfs::get_file_parse_error")
    if gp is None:
        raise RuleBroken("Vfs::get_file_parse_error not found")
    nsw = 0
    for bi, blk in enumerate(gp.blocks):
        t = blk[2]
        if blk[0] or t[0] != "sw":
            continue
        nsw += 1
        l = t[1][1][0] if t[1][0] in ("c", "m") else None
        src = set()
        if l is not None:
            for st in blk[1]:
                if st[0] == "a" and st[1] == [l] and st[2][0] == "disc":
                    l = st[2][1][0]
            src = comp_sources(gp, ["c", [l]])
        okset = {"get", "is_empty", "branch"}
        detail = set()
        for s_ in src:
            if s_ == "is_empty":
                # is_empty of what?  must be the get_errors() slice
                for bb2, c2 in gp.calls():
                    if name(c2).endswith("::is_empty") and c2["a"]:
                        detail |= comp_sources(gp, c2["a"][0])
        chk.check(src <= okset and detail <= {"get_errors"}, "R21e", "branch#%d" % nsw,
                  "get_file_parse_error branches on %s: a file whose errors do not satisfy that test (for instance only doc-comment errors when the "
                  "test is has_syntax_errors) loses all of its syntax-error diagnostics" % sorted(src | detail), gp.loc(t[-1] if isinstance(t[-1], int) else None),
                  witness={"condition_sources": sorted(src), "is_empty_of": sorted(detail)},
                  sample={"rule": "R21e", "branch": nsw, "verdict": "tree lookup / get_errors().is_empty()"})
    chk.check(nsw >= 2, "R21e", "shape", "get_file_parse_error no longer tests the tree lookup and the emptiness of get_errors() (%d branches): its result does "
              "not come straight from the current tree's error list" % nsw, gp.loc())
    rets = []
    for blk in gp.blocks:
        for st in blk[1]:
            if st[0] == "a" and st[1] == [0] and st[2][0] == "agg" and st[2][3] == "Some":
                rets.append(comp_sources(gp, st[2][4][0]))
    chk.check(bool(rets) and all(r == {"to_vec"} or r == {"get_errors"} or r <= {"to_vec", "get_errors", "to_owned", "clone"} for r in rets), "R21e", "returns-all-errors",
              "get_file_parse_error's Some(..) value is not the whole get_errors() list (%s)" % [sorted(r) for r in rets], gp.loc(),
              sample={"rule": "R21e", "verdict": "Some(get_errors().to_vec())"})
