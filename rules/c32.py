"""C32 (determinism clause): hash order never decides the merged configuration.

R32  in the configuration loading/merging code every write into a serde_json value/map (insert, entry, IndexMut) that
     sits in a loop is driven by a deterministically ordered iteration: the loop's iterator must not derive its order
     from a randomly seeded hash container (two iterations may write the same path: "a.b" flat and {"a":{"b":..}} nested).
"""
import cfgutil
import hashorder
from report import RuleBroken

CFG = "emmylua_code_analysis::config"
WRITES = ("serde_json::map::Map::<alloc::string::String, serde_json::value::Value>::insert",
          "serde_json::map::Map::<alloc::string::String, serde_json::value::Value>::entry",
          "serde_json::map::Map::<K, V>::insert", "serde_json::map::Map::<K, V>::entry")


def name(c):
    return c.get("r") or c.get("f") or ""


def _normalised(F, b, op, dataflow):
    """is the operand an item of an iterator that was mapped through FlattenConfigObject::parse(..).to_emmyrc()?"""
    l = dataflow.operand_local(op)
    if l is None:
        return False, "constant operand"
    rs = dataflow.roots(b, l)
    # direct: result of to_emmyrc in this body
    for r in rs:
        if r[0] == "call" and name(b.blocks[r[1]][2][1]).endswith("FlattenConfigObject::to_emmyrc"):
            return True, ""
    if b.kind == "closure" and any(r[0] == "arg" for r in rs):
        # the closure is the fold/for_each body: look at the adaptor chain in the parent for a map(closure) whose closure ends in to_emmyrc
        parent = F.bodies.get(b.id.rsplit("::{closure", 1)[0])
        if parent is not None:
            for bb, c in parent.calls():
                n = name(c)
                if n.endswith(("Iterator::map", "Iterator::filter_map")):
                    for a in c["a"][1:]:
                        la = dataflow.operand_local(a)
                        for d in dataflow.def_sites(parent).get(la, []) if la is not None else []:
                            if d[0] == "stmt" and d[3][0] == "agg" and d[3][1] == "closure":
                                cb = F.bodies.get(d[3][2])
                                if cb is not None and any(name(cc).endswith("FlattenConfigObject::to_emmyrc") for _, cc in cb.calls()) and \
                                        any(name(cc).endswith("FlattenConfigObject::parse") for _, cc in cb.calls()):
                                    # the closure's result is to_emmyrc()'s result on EVERY path (no branch that hands the raw item on)
                                    rr = dataflow.roots(cb, 0)
                                    if rr and all(r[0] == "call" and name(cb.blocks[r[1]][2][1]).endswith("FlattenConfigObject::to_emmyrc") for r in rr):
                                        return True, ""
                                    return False, "the normalising map() closure returns the raw item on some path (normalisation is conditional)"
        return False, "the items of the merged sequence are the raw parsed files"
    return False, "operand does not come from to_emmyrc()"


def run(chk, F, tier):
    chk.rule("R32", "keyed writes into the resulting JSON configuration are never driven by hash-iteration order")
    chk.assume("decides determinism only; 'the later file wins whichever spelling' and array de-duplication are value-level semantics and are not decided")
    T = hashorder.OrderTaint(F)
    cg_scope = [b for b in F.bodies.values() if b.id.startswith(CFG) and "::_::" not in b.id]
    # functions that (transitively, within the config module) write JSON maps
    writers = set()
    for b in cg_scope:
        for bb, c in b.calls():
            n = name(c)
            if n in WRITES or ("serde_json" in n and (n.endswith("::insert") or n.endswith("::entry") or n.endswith("index_mut"))):
                writers.add(b.id)
    changed = True
    while changed:
        changed = False
        for b in cg_scope:
            if b.id in writers:
                continue
            for bb, c in b.calls():
                if name(c) in writers:
                    writers.add(b.id)
                    changed = True
                    break
    chk.floor("functions writing JSON config values", len(writers), 2)
    nloops = 0
    for b in cg_scope:
        succ = b.succ_map()
        loops = cfgutil.natural_loops(succ, 0)
        for h, body in loops.items():
            wr = [x for x in body if b.blocks[x][2][0] == "call" and
                  (name(b.blocks[x][2][1]) in writers or name(b.blocks[x][2][1]) in WRITES or
                   ("serde_json" in name(b.blocks[x][2][1]) and name(b.blocks[x][2][1]).split("::")[-1] in ("insert", "entry", "index_mut")))]
            if not wr:
                continue
            nexts = [x for x in body if b.blocks[x][2][0] == "call" and (b.blocks[x][2][1].get("f") or "").endswith("Iterator::next")]
            for x in nexts:
                nloops += 1
                c = b.blocks[x][2][1]
                a = c["a"][0]
                it = T._ref_target(b, a[1][0]) if a[0] in ("c", "m") and len(a[1]) == 1 else None
                ls = T.query(lambda: T.local(b, it, x)) if it is not None else set()
                hs = sorted(l for l in ls if l[0] == "HASH")
                chk.check(not hs, "R32", "loop@%s#%d" % (b.id, sorted(loops).index(h)),
                          "%s writes the resulting configuration inside a loop whose order comes from hash iteration (%s): when two "
                          "keys address the same setting the surviving value changes from run to run" % (
                              b.id, ["%s:%s" % (h_[1].split("::")[-1], h_[2]) for h_ in hs[:2]]), b.loc(c["l"]),
                          witness={"sources": [list(x_) for x_ in hs[:4]]},
                          sample={"rule": "R32", "loop_in": b.id, "verdict": "deterministic iteration order"})
    chk.floor("config-writing loops", nloops, 1)
    # R32b: configs are merged in one spelling
    import dataflow
    chk.rule("R32b", "every configuration value handed to merge_values by the loader went through FlattenConfigObject::parse(..).to_emmyrc() first "
                     "(flat and nested spellings of one setting must meet under one key, so that the later file wins)")
    MERGE = CFG + "::config_loader::merge_values"
    nm = 0
    for b in cg_scope:
        if b.id == MERGE or b.id.startswith(MERGE + "::"):
            continue          # the recursion inside merge_values works on sub-values of already normalised inputs
        for bb, c in b.calls():
            if name(c) != MERGE or len(c["a"]) < 2:
                continue
            nm += 1
            # the overlay operand: through closure parameters to the iterator adaptor that produced the items
            ok, why = _normalised(F, b, c["a"][1], dataflow)
            chk.check(ok, "R32b", "merge-input@%s" % b.id.replace(CFG + "::", ""),
                      "%s merges a configuration that was not brought to the nested spelling first (%s): a flat key in one file and the nested "
                      "form in another survive as two entries and the flat one wins whatever the order of the files" % (b.id.split("::")[-1] if not b.id.endswith("}") else "::".join(b.id.split("::")[-2:]), why),
                      b.loc(c["l"]), sample={"rule": "R32b", "site": b.id, "verdict": "items pass through parse(..).to_emmyrc()"})
    chk.floor("merge_values call sites in the loader", nm, 1)
    # R32c: every parsed configuration takes part in the merge, at its own position
    import guards
    chk.rule("R32c", "the loader never drops a parsed configuration because an equal one was collected earlier (the later occurrence must still "
                     "override what came in between)")
    npush = 0
    for b in cg_scope:
        if "config_loader" not in b.id:
            continue
        succ = b.succ_map()
        pushes = [(bb, c) for bb, c in b.calls() if name(c).endswith("Vec::<T, A>::push") and c["a"] and "serde_json::value::Value" in b.ty_str_op(c["a"][0])]
        for bb, c in pushes:
            npush += 1
            def deep_roots(op, depth=0):
                l_ = dataflow.operand_local(op)
                out = set()
                for r in (dataflow.roots(b, l_) if l_ is not None else ()):
                    if r[0] == "call" and depth < 4:
                        cc = b.blocks[r[1]][2][1]
                        if name(cc).endswith(("Deref>::deref", "DerefMut>::deref_mut", "::as_slice", "::iter", "::as_ref")) and cc["a"]:
                            out |= deep_roots(cc["a"][0], depth + 1)
                            continue
                    out.add(r)
                return out
            vec_roots = deep_roots(c["a"][0])
            bad = None
            for tb, tc in b.calls():
                n = name(tc)
                if not (n.endswith(("::contains", "Iterator::any", "Iterator::position", "PartialEq>::eq", "PartialEq>::ne")) and tc["a"]):
                    continue
                ra = set()
                for a in tc["a"]:
                    ra |= deep_roots(a)
                if not (ra & vec_roots):
                    continue
                br = guards.bool_branch(b, tb)
                if not br:
                    continue
                r_true, r_false = cfgutil.reachable(succ, br[0]) | {br[0]}, cfgutil.reachable(succ, br[1]) | {br[1]}
                if (bb in r_true) != (bb in r_false):
                    bad = tc["l"]
            chk.check(bad is None, "R32c", "collect@%s#%d" % (b.id.replace(CFG + "::", ""), npush),
                      "%s adds a parsed configuration to the merge list only when a comparison with the configurations collected so far says so: an equal "
                      "config that appears again later keeps the position of its first occurrence, so the file in between wins although it is not the last"
                      % b.id.split("::")[-1], b.loc(bad), sample={"rule": "R32c", "site": b.id, "verdict": "unconditional collection"})
    chk.floor("collection sites of parsed configurations", npush, 1)
    chk.explanation = "Hash-order taint of the iterator of every loop (in the config module) that writes JSON configuration values."
