"""C32 (determinism clause): hash order never decides the merged configuration.

R32  in the configuration loading/merging code every write into a serde_json value/map (insert, entry, IndexMut) that
     sits in a loop is driven by a deterministically ordered iteration: the loop's iterator must not derive its order
     from a randomly seeded hash container (two iterations may write the same path: "a.b" flat and {"a":{"b":..}} nested).
"""
import cfgutil
import hashorder
from report import RuleBroken

CFG = "emmylua_code_analysis::config"
WRITES = ("serde_json::map::Map::<alloc::string::String, serde_json::value::Value>::insert",
          "serde_json::map::Map::<alloc::string::String, serde_json::value::Value>::entry",
          "serde_json::map::Map::<K, V>::insert", "serde_json::map::Map::<K, V>::entry")


def name(c):
    return c.get("r") or c.get("f") or ""


def run(chk, F, tier):
    chk.rule("R32", "keyed writes into the resulting JSON configuration are never driven by hash-iteration order")
    chk.assume("decides determinism only; 'the later file wins whichever spelling' and array de-duplication are value-level semantics and are not decided")
    T = hashorder.OrderTaint(F)
    cg_scope = [b for b in F.bodies.values() if b.id.startswith(CFG) and "::_::" not in b.id]
    # functions that (transitively, within the config module) write JSON maps
    writers = set()
    for b in cg_scope:
        for bb, c in b.calls():
            n = name(c)
            if n in WRITES or ("serde_json" in n and (n.endswith("::insert") or n.endswith("::entry") or n.endswith("index_mut"))):
                writers.add(b.id)
    changed = True
    while changed:
        changed = False
        for b in cg_scope:
            if b.id in writers:
                continue
            for bb, c in b.calls():
                if name(c) in writers:
                    writers.add(b.id)
                    changed = True
                    break
    chk.floor("functions writing JSON config values", len(writers), 2)
    nloops = 0
    for b in cg_scope:
        succ = b.succ_map()
        loops = cfgutil.natural_loops(succ, 0)
        for h, body in loops.items():
            wr = [x for x in body if b.blocks[x][2][0] == "call" and
                  (name(b.blocks[x][2][1]) in writers or name(b.blocks[x][2][1]) in WRITES or
                   ("serde_json" in name(b.blocks[x][2][1]) and name(b.blocks[x][2][1]).split("::")[-1] in ("insert", "entry", "index_mut")))]
            if not wr:
                continue
            nexts = [x for x in body if b.blocks[x][2][0] == "call" and (b.blocks[x][2][1].get("f") or "").endswith("Iterator::next")]
            for x in nexts:
                nloops += 1
                c = b.blocks[x][2][1]
                a = c["a"][0]
                it = T._ref_target(b, a[1][0]) if a[0] in ("c", "m") and len(a[1]) == 1 else None
                ls = T.query(lambda: T.local(b, it, x)) if it is not None else set()
                hs = sorted(l for l in ls if l[0] == "HASH")
                chk.check(not hs, "R32", "loop@%s#%d" % (b.id, sorted(loops).index(h)),
                          "%s writes the resulting configuration inside a loop whose order comes from hash iteration (%s): when two "
                          "keys address the same setting the surviving value changes from run to run" % (
                              b.id, ["%s:%s" % (h_[1].split("::")[-1], h_[2]) for h_ in hs[:2]]), b.loc(c["l"]),
                          witness={"sources": [list(x_) for x_ in hs[:4]]},
                          sample={"rule": "R32", "loop_in": b.id, "verdict": "deterministic iteration order"})
    chk.floor("config-writing loops", nloops, 1)
    chk.explanation = "Hash-order taint of the iterator of every loop (in the config module) that writes JSON configuration values."
