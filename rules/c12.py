"""C12 (recursion guards + explicit-panic lint clauses of 'indexing and semantic queries never crash').

R12a  every recursive component of emmylua_code_analysis that dereferences type *names* (looks a LuaTypeDeclId / alias /
      super type / member owner up in an index -- the only carrier that can be cyclic at run time) contains a guard:
      InferGuard::check, a TypeCheckGuard level, a depth/level counter compared with a bound, or a visited set; components
      that only recurse structurally over a finite type value or syntax tree are listed in the audited table.
R12b  the crate's own panic discipline (clippy::unwrap_used, unwrap_in_result, panic, panic_in_result_fn) holds for the
      non-test library code: enforced by running `cargo clippy` with these lints denied (nothing in the suite runs clippy).
"""
import os
import subprocess
import cfgutil
import callgraph
import dataflow
import facts
from report import RuleBroken

CA = "emmylua_code_analysis::"
DEREF = ("LuaTypeIndex::get_type_decl", "LuaTypeIndex::get_super_types", "LuaTypeIndex::get_super_types_iter", "::get_alias_ref",
         "LuaTypeIndex::get_type_cache", "LuaMemberIndex::get_members", "LuaSignatureIndex::get", "::get_alias_origin",
         "LuaTypeIndex::get_generic_params")

# components (keyed by their alphabetically first member) without a recognised guard, with the reason recursion is bounded
STRUCTURAL = {
    "compilation::analyzer::doc::infer_type::infer_binary_type":
        "recursion follows the doc-type *syntax tree* (LuaDocType children), whose depth the parser bounds (C02 nesting limit); the "
        "name lookup does not feed the recursion",
    "semantic::infer::narrow::narrow_type::narrow_down_type":
        "recurses only into the members of a union type value (finite); for Ref/Def it looks the decl up and returns without recursing",
    "semantic::infer::infer_name::find_param_type_from_union":
        "recurses only into union members of a type value (finite)",
    "db_index::r#type::type_ops::remove_type::remove_type":
        "the alias hop is delegated to get_real_type (depth-bounded at MAX_RECURSION_DEPTH = 10), the other recursive calls descend "
        "into union members of a type value; exercised once by hand on the alias cycle `---@alias A B` / `---@alias B A` "
        "(TypeOps::Remove terminates) -- reported first by this rule, then audited",
    "diagnostic::checker::check_field::is_valid_member":
        "recurses only into union/intersection components of a type value (finite); Ref lookups do not recurse",
}


def name(c):
    return c.get("r") or c.get("f") or ""


def guard_of(F, fid):
    b = F.bodies[fid]
    for bb, c in b.calls():
        n = name(c)
        if "InferGuard" in n and n.endswith("::check"):
            return "InferGuard::check"
        if n.endswith("::insert") and "HashSet" in n:
            return "visited set"
        if "TypeCheckGuard" in n or "TypeCheckCheckLevel" in n:
            return "TypeCheckGuard level"
    for blk in b.blocks:
        for st in blk[1]:
            if st[0] == "a" and st[2][0] == "bin" and st[2][1] in ("Gt", "Ge", "Lt", "Le"):
                ops = st[2][2:4]
                if not any(o[0] == "k" for o in ops):
                    continue
                for o in ops:
                    if o[0] not in ("c", "m"):
                        continue
                    names = set()
                    for e in o[1][1:]:
                        if isinstance(e, list) and e[0] == "f":
                            names.add(e[2] or "")
                    names.add(b.local_name(o[1][0]) or "")
                    if len(o[1]) == 1:
                        for r in dataflow.roots(b, o[1][0]):
                            if r[0] == "arg":
                                names.add(b.local_name(r[1]) or "")
                            if r[0] == "place":
                                names.add(b.local_name(r[1]) or "")
                                for e in r[2]:
                                    if isinstance(e, tuple) and e[0] == "f":
                                        names.add(e[2] or "")
                    if any(k in n_ for n_ in names for k in ("depth", "level", "recursion", "visit")):
                        return "depth counter"
    return None


def run(chk, F, tier):
    chk.rule("R12a", "name-dereferencing recursive components carry a recursion guard (or are audited as structural)")
    chk.rule("R12b", "clippy's unwrap_used / unwrap_in_result / panic / panic_in_result_fn hold for the library code")
    chk.assume("termination of guarded fixpoints in bounded time and arithmetic panics are not decided; expect/unwrap sites are clippy's (R12b)")
    chk.assume("guard presence is checked per recursive component, not per cycle inside a component")
    cg = callgraph.CallGraph(F)
    scope = {k for k, b in F.bodies.items() if b.crate == "emmylua_code_analysis" and b.kind in ("fn", "closure")
             and "::test" not in k and "::_::" not in k}
    comps = [c for c in cfgutil.sccs(list(scope), lambda n: [x for x in cg.callees(n) if x in scope]) if len(c) > 1 or c[0] in cg.callees(c[0])]
    chk.floor("recursive components", len(comps), 60)
    nd = 0
    for comp in sorted(comps, key=lambda c: sorted(c)[0]):
        der = [x for x in comp if any(name(cc).endswith(DEREF) for _, cc in F.bodies[x].calls())]
        if not der:
            continue
        nd += 1
        rep = sorted(comp)[0].replace(CA, "")
        guards = {}
        for x in comp:
            g = guard_of(F, x)
            if g:
                guards.setdefault(g, []).append(x.split("::")[-1])
        if guards:
            chk.ok("R12a", rep, {"rule": "R12a", "component": rep, "size": len(comp), "name_lookups_in": len(der),
                                 "guards": {k: v[:3] for k, v in guards.items()}, "verdict": "guarded"})
        elif rep in STRUCTURAL:
            chk.ok("R12a", rep, {"rule": "R12a", "component": rep, "verdict": "audited: structural recursion", "reason": STRUCTURAL[rep]})
        else:
            chk.violation("R12a", rep,
                          "the recursive component around %s (%d functions) looks type names up in the index (%s) but contains no "
                          "recursion guard: a cyclic annotation (alias or class chain that refers back to itself) recurses until "
                          "the stack overflows" % (rep, len(comp), sorted(x.split("::")[-1] for x in der)[:3]),
                          F.bodies[sorted(comp)[0]].loc(), witness={"component": sorted(x.replace(CA, "") for x in comp)[:30]})
    chk.floor("name-dereferencing recursive components", nd, 15)
    # R12b: clippy (a static linter) with the crate's own deny list, on the library target only
    env = dict(os.environ, CARGO_NET_OFFLINE="true", CARGO_TARGET_DIR=os.path.join(facts.CACHE, "clippy-target"))
    cmd = ["cargo", "clippy", "-p", "emmylua_code_analysis", "--lib", "--no-deps", "--offline", "--quiet", "--",
           "-D", "clippy::unwrap_used", "-D", "clippy::unwrap_in_result", "-D", "clippy::panic", "-D", "clippy::panic_in_result_fn"]
    p = subprocess.run(cmd, cwd=facts.REPO, env=env, capture_output=True, text=True)
    errs = [l for l in p.stderr.splitlines() if l.startswith("error")]
    locs = [l.strip() for l in p.stderr.splitlines() if l.strip().startswith("--> ")]
    chk.unit("clippy exit code", p.returncode)
    if p.returncode != 0 and not errs:
        raise RuleBroken("cargo clippy could not run: %s" % p.stderr[-400:])
    chk.check(p.returncode == 0, "R12b", "clippy-panic-discipline",
              "clippy reports %d violations of the crate's panic discipline in library code, first: %s %s"
              % (len(errs), errs[0] if errs else "", locs[0] if locs else ""), locs[0][4:] if locs else None,
              witness={"errors": errs[:10], "locations": locs[:10]},
              sample={"rule": "R12b", "lints": ["unwrap_used", "unwrap_in_result", "panic", "panic_in_result_fn"], "verdict": "clean"})
    # R12e: member lookup through the supers of a class re-enters member lookup: the class must be on the guard's path first
    chk.rule("R12e", "in semantic::infer::infer_index every function that walks LuaTypeIndex::get_super_types and feeds the supers back into "
                     "infer_member_by_lookup calls InferGuard::check before the walk (the index's own cycle filter only sees class-to-class edges; "
                     "a cycle closed through a generic alias comes back here)")
    IDX = CA + "semantic::infer::infer_index::"
    nwalk = 0
    for k, b in F.bodies.items():
        if not k.startswith(IDX) or b.kind != "fn":
            continue
        sup = [bb for bb, c in b.calls() if name(c).endswith(("LuaTypeIndex::get_super_types", "LuaTypeIndex::get_super_types_iter"))]
        if not sup:
            continue
        bodies = [b] + [x for kk, x in F.bodies.items() if kk.startswith(k + "::{closure")]
        reenters = any(name(c).endswith("infer_index::infer_member_by_lookup") for bd in bodies for _, c in bd.calls())
        if not reenters:
            continue
        nwalk += 1
        idom = cfgutil.dominators(b.succ_map(), 0)
        checks = [bb for bb, c in b.calls() if "InferGuard" in name(c) and name(c).endswith("::check")]
        ok = all(any(cb == sb or cfgutil.dominates(idom, cb, sb) for cb in checks) for sb in sup)
        chk.check(ok, "R12e", "super-walk-guarded@%s" % k.replace(IDX, ""),
                  "%s walks the super types of a class and looks members up in them without first putting the class on the inference guard: with "
                  "`---@class A<T>: Al<T>`, `---@alias Al<T> B<T>`, `---@class B<T>: A<T>` the lookup of a missing member recurses until the stack overflows"
                  % k.split("::")[-1], b.loc(), sample={"rule": "R12e", "fn": k.split("::")[-1], "verdict": "InferGuard::check dominates the walk"})
    chk.floor("super walks that re-enter member lookup", nwalk, 1)
    # R12f: a recursion guard is created at query entry points only
    chk.rule("R12f", "a method of a context type that carries the InferGuard of the running walk never calls InferGuard::new(): a child context built "
                     "with a fresh guard forgets the types already on the path, and a cycle that passes through that point is never detected")
    nnew = 0
    for k, b in F.bodies.items():
        if b.crate != "emmylua_code_analysis" or "::test" in k or b.kind not in ("fn", "closure"):
            continue
        sites = [c for _, c in b.calls() if name(c).endswith("InferGuard::new")]
        if not sites:
            continue
        nnew += len(sites)
        holds = [i for i in range(1, b.argc + 1) if "InferGuard" in b.local_ty_str(i)]
        recv_fields = []
        if b.argc >= 1 and b.kind == "fn":
            t = b.local_ty(1)
            adt = F.adts.get(t[3]) if t[2] in ("ref", "adt") or t[3] else None
            if adt is None and t[4]:
                for ai in t[4]:
                    tt = b.ty(ai)
                    if tt[3] in F.adts:
                        adt = F.adts[tt[3]]
            if adt is not None and b.local_name(1) == "self":
                recv_fields = [f["name"] for v in adt["variants"] for f in v["fields"] if "InferGuard" in adt["_types"][f["ty"]][0]]
        # a fresh guard handed to a separate second pass (infer_member's operator fallback after FieldNotFound) is a temporary; what must
        # not happen is that a context object which *carries* the guard of the running walk is rebuilt with an empty one
        chk.check(not recv_fields, "R12f", "fresh-guard@%s" % k.replace(CA, ""),
                  "%s creates a fresh InferGuard although it already holds one (%s): the set of types visited so far is dropped at this point, so a "
                  "cyclic class/alias chain that runs through it recurses until the stack overflows" % (k.split("::")[-1], (["parameter"] if holds else []) + recv_fields),
                  b.loc(sites[0]["l"]), sample={"rule": "R12f", "fn": k.replace(CA, ""), "verdict": "entry point: no guard in scope"})
    chk.floor("InferGuard::new call sites", nnew, 10)
    from rules import c12d
    c12d.run_r12d(chk, F)
    from rules import c12c
    n, rec, aud = c12c.run_r12c(chk, F)
    chk.floor("bounds-sensitive sites in the analysis crate", n, 200)
    chk.floor("bounds-sensitive sites discharged by derived facts", rec, 120)
    chk.explanation = ("SCCs of the crate's call graph classified by name lookups and guard operations; clippy run with the panic lints denied; "
                       "bounds facts (lib/bounds.py) or audited reasons for every index/slice/positional operation.")
