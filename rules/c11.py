"""C11: hash-iteration order never reaches an analysis-order sink.

R11  hash-order taint (lib/hashorder.py) with sinks:
     * the Vec<FileId> arguments of LuaCompilation::update_index / remove_index at every call site,
     * the file list handed to analyzer::analyze and the context list it iterates (result of module_analyze),
     * the result of get_best_analysis_order, Vfs::get_all_file_ids, get_main_workspace_file_ids,
     * every sequence iterated by a loop that calls a per-file analysis step (for-loops over AnalyzeContext.tree_list
       are fed by the sinks above).
A tainted value at a sink is a violation naming the hash iteration site.
"""
import hashorder
from report import RuleBroken

CA = "emmylua_code_analysis"
COMP = CA + "::compilation::LuaCompilation"

ARG_SINKS = [
    (COMP + "::update_index", 1, "file list handed to update_index"),
    (COMP + "::remove_index", 1, "file list handed to remove_index"),
    (CA + "::compilation::analyzer::analyze", 1, "file list handed to analyzer::analyze"),
    (CA + "::db_index::DbIndex::remove_index", 1, "file list handed to DbIndex::remove_index"),
]
RET_SINKS = [
    (CA + "::compilation::analyzer::module_analyze", "order of workspace contexts returned by module_analyze"),
    (CA + "::db_index::dependency::file_dependency_relation::FileDependencyRelation::get_best_analysis_order",
     "analysis order returned by get_best_analysis_order"),
    (CA + "::vfs::Vfs::get_all_file_ids", "Vfs::get_all_file_ids (feeds reindex)"),
    (CA + "::vfs::Vfs::get_all_local_file_ids", "Vfs::get_all_local_file_ids"),
]

# exact-key exceptions with the value-level reason (DESIGN.md C11)
# flows that start in this crate-private helper are ignored: `#[allow(unused)] pub(crate) update_files_by_uri_sorted`
# is only called from tests (its update list is sorted; its removal list is a set whose removal order is irrelevant there)
IGNORED_SOURCE_FNS = ("update_files_by_uri_sorted",)

EXCEPTIONS = {
    "ret:module_analyze<-module_analyze.main_vec": "main_vec receives only WorkspaceId::MAIN (std removed before, library/remote ids go to "
                                          "the sorted `contexts`), so it has at most one element: hash order cannot permute it",
}


def run(chk, F, tier):
    chk.rule("R11", "no hash-iteration order reaches the file lists / orders that drive the analysis pipelines")
    chk.assume("order dependence inside the index (which declaration wins) and thread timing are not decided")
    chk.assume("min_by/max_by keys are injective on their candidates; sort keys are total on the sorted elements")
    T = hashorder.OrderTaint(F)
    n = 0
    for callee, ai, what in ARG_SINKS:
        sites = T.callers().get(callee, [])
        for cb, bb, c in sites:
            if cb.crate not in (CA, "emmylua_ls", "emmylua_check", "emmylua_doc_cli"):
                continue
            if "::test" in cb.id or cb.id.endswith("_sorted"):
                continue
            n += 1
            ls = T.query(lambda: T.operand(cb, c["a"][ai], bb))
            key = "arg:%s@%s" % (callee.split("::")[-1], cb.id.replace(CA + "::", ""))
            hs = sorted(l for l in ls if l[0] == "HASH" and l[1].split("::")[-1] not in IGNORED_SOURCE_FNS)
            chk.check(not hs, "R11", key,
                      "%s in %s derives its order from hash iteration at %s" % (
                          what, cb.id, ["%s:%s %s" % (h[1].split("::")[-1], h[2], h[3].split("::")[-1]) for h in hs[:3]]),
                      cb.loc(c["l"]), witness={"sources": [list(h) for h in hs[:6]]},
                      sample={"rule": "R11", "sink": key, "verdict": "order is hash independent"})
    chk.floor("argument sink sites", n, 8)
    # file ids are handed out in the order files are first submitted: a loop that submits files must not be driven by hash order
    import cfgutil
    MINT = (CA + "::vfs::Vfs::set_file_content", CA + "::vfs::Vfs::set_remote_file_content", CA + "::vfs::Vfs::file_id",
            CA + "::EmmyLuaAnalysis::update_file_by_uri", CA + "::EmmyLuaAnalysis::update_remote_file_by_uri")
    nmint = 0
    for cb in F.bodies.values():
        if cb.crate not in (CA, "emmylua_ls", "emmylua_check", "emmylua_doc_cli") or "::test" in cb.id or cb.id.endswith("_sorted"):
            continue
        sites = [bb for bb, c in cb.calls() if (c.get("r") or c.get("f") or "") in MINT]
        if not sites:
            continue
        succ = cb.succ_map()
        loops = cfgutil.natural_loops(succ, 0)
        for h, body in loops.items():
            if not any(x in body for x in sites):
                continue
            for x in sorted(body):
                t = cb.blocks[x][2]
                if t[0] != "call" or not (t[1].get("f") or "").endswith("Iterator::next"):
                    continue
                nmint += 1
                a = t[1]["a"][0]
                it = T._ref_target(cb, a[1][0]) if a[0] in ("c", "m") and len(a[1]) == 1 else None
                ls = T.query(lambda: T.local(cb, it, x)) if it is not None else set()
                hs = sorted(l for l in ls if l[0] == "HASH" and l[1].split("::")[-1] not in IGNORED_SOURCE_FNS)
                key = "mint-loop@%s" % cb.id.replace(CA + "::", "")
                chk.check(not hs, "R11", key,
                          "%s submits files to the Vfs in a loop whose order comes from hash iteration (%s): FileIds are handed out in submission order, "
                          "so the same batch gets different ids -- and a different analysis order -- from run to run" % (
                              cb.id.split("::")[-1], ["%s:%s %s" % (h_[1].split("::")[-1], h_[2], h_[3].split("::")[-1]) for h_ in hs[:3]]),
                          cb.loc(t[1]["l"]), witness={"sources": [list(h_) for h_ in hs[:6]]},
                          sample={"rule": "R11", "sink": key, "verdict": "submission order is hash independent"})
    chk.floor("file-submitting loops", nmint, 2)
    m = 0
    for fid, what in RET_SINKS:
        b = F.bodies.get(fid)
        if b is None:
            raise RuleBroken("sink function %s not found" % fid)
        m += 1
        def q(b=b):
            ls = set()
            for r in b.returns():
                ls |= T.local(b, 0, r)
            return ls
        ls = T.query(q)
        hs = sorted(l for l in ls if l[0] == "HASH")
        key = "ret:%s" % fid.split("::")[-1]
        # group by source function for exact exception keys
        srcs = sorted({h[1].split("::")[-1] + ("." + h[4] if len(h) > 4 else "") for h in hs})
        pending = []
        for s in srcs:
            k2 = "%s<-%s" % (key, s)
            if k2 in EXCEPTIONS:
                chk.ok("R11", k2, {"rule": "R11", "sink": k2, "verdict": "audited exception", "reason": EXCEPTIONS[k2]})
            else:
                pending.append(s)
        chk.check(not pending, "R11", key,
                  "%s derives its order from hash iteration in %s" % (what, pending), b.loc(),
                  witness={"sources": [list(h) for h in hs[:8]]},
                  sample={"rule": "R11", "sink": key, "verdict": "order is hash independent"})
    chk.floor("return sinks", m, 4)
    chk.explanation = ("Backward, use-site aware taint from every order sink to hash-container iteration, through collect/"
                       "push/extend, clones, helper returns, parameters and closures; sorts that dominate the use sanitize.")
