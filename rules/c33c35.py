"""C33 / C35 determinism (and scope) clauses via hash-order taint.

R33   the module chosen by LuaModuleIndex::{find_module, exact_find_module, fuzzy_find_module, find_module_node,
      find_module_by_normalized_path} never derives from hash-iteration order (a choice among several candidates must
      use a total tie-break).
R35a  every list exported by emmylua_doc_cli's JSON generator (return values of export*/functions returning Vec) is free
      of hash-iteration order.
R35b  each top-level export list is filtered by LuaModuleIndex::is_main (only main-workspace items are documented).
"""
import hashorder
from report import RuleBroken

MI = "emmylua_code_analysis::db_index::module::LuaModuleIndex"
DOC = "emmylua_doc_cli::json_generator::export"


def name(c):
    return c.get("r") or c.get("f") or ""


def ret_taint(T, b):
    def q():
        ls = set()
        for r in b.returns():
            ls |= T.local(b, 0, r)
        return ls
    return sorted(l for l in T.query(q) if l[0] == "HASH")


def run_c33(chk, F, tier):
    chk.rule("R33", "module lookup results never depend on hash-iteration order")
    chk.assume("decides determinism of the choice among candidates; pattern matching, module-map rewriting, exact-before-fuzzy and removal are not decided")
    chk.assume("min_by/max_by keys are total on the candidates")
    T = hashorder.OrderTaint(F)
    fns = [b for k, b in F.bodies.items() if k.startswith(MI + "::") and b.kind == "fn" and
           any(s in k.split("::")[-1] for s in ("find_module", "fuzzy_find", "exact_find"))]
    chk.floor("module lookup functions", len(fns), 4)
    for b in sorted(fns, key=lambda x: x.id):
        hs = ret_taint(T, b)
        chk.check(not hs, "R33", b.id.split("::")[-1],
                  "%s can return a module chosen by hash-iteration order (%s): `require` resolves to different files from run to run"
                  % (b.id.split("::")[-1], ["%s:%s" % (h[1].split("::")[-1], h[2]) for h in hs[:2]]), b.loc(),
                  witness={"sources": [list(h) for h in hs[:4]]},
                  sample={"rule": "R33", "fn": b.id.split("::")[-1], "verdict": "choice independent of hash order"})
    # R33b: a module node is pruned only when it neither holds a file nor has children
    import cfgutil
    import guards
    chk.rule("R33b", "LuaModuleIndex::remove deletes a node of the module tree only under `file_ids.is_empty() && children.is_empty()`: a package node "
                     "that is also a module (pkg/init.lua next to pkg/sub.lua) must survive the removal of its last submodule")
    rm = next((b for k, b in F.bodies.items() if "LuaModuleIndex as " in k and k.endswith("LuaIndex>::remove")), None)
    if rm is None:
        raise RuleBroken("LuaModuleIndex::remove not found")
    succ = rm.succ_map()
    idom = cfgutil.dominators(succ, 0)

    def field_of_receiver(b, c):
        """name of the struct field whose emptiness is tested"""
        l = c["a"][0][1][0] if c["a"] and c["a"][0][0] in ("c", "m") else None
        for blk in b.blocks:
            for st in blk[1]:
                if st[0] == "a" and st[1] == [l] and st[2][0] == "ref":
                    fs = [e[2] for e in st[2][2][1:] if isinstance(e, list) and e[0] == "f"]
                    if fs:
                        return fs[-1]
        return None
    empties = {}
    for bb, c in rm.calls():
        if (c.get("r") or c.get("f") or "").endswith("::is_empty"):
            f = field_of_receiver(rm, c)
            br = guards.bool_branch(rm, bb)
            if f and br:
                empties.setdefault(f, []).append(br[0])
    nrem = 0
    for bb, c in rm.calls():
        n = c.get("r") or c.get("f") or ""
        if n.endswith("::remove") and c["a"] and "HashMap<emmylua_code_analysis::db_index::module::module_node::ModuleNodeId," in rm.ty_str_op(c["a"][0]):
            nrem += 1
            need = {}
            for f in ("file_ids", "children"):
                need[f] = any(t == bb or cfgutil.dominates(idom, t, bb) for t in empties.get(f, []))
            chk.check(all(need.values()), "R33b", "prune#%d" % nrem,
                      "LuaModuleIndex::remove deletes a module-tree node without having tested %s for emptiness on that path: a node that still %s is "
                      "dropped, and `require` of the package (or of its remaining submodules) no longer resolves although the files are there"
                      % ([f for f, v in need.items() if not v], "holds a file" if not need["file_ids"] else "has children"), rm.loc(c["l"]),
                      sample={"rule": "R33b", "site": nrem, "verdict": "both emptiness tests dominate the deletion"})
    chk.floor("node deletions in LuaModuleIndex::remove", nrem, 1)

    # R33c: workspace roots are matched by path components
    chk.rule("R33c", "extract_module_path strips the workspace root with Path::strip_prefix (component-wise), never with a string prefix test: "
                     "`/ws/lib` must not match `/ws/lib_old/x.lua`")
    em = F.bodies.get(MI + "::extract_module_path")
    if em is None:
        raise RuleBroken("extract_module_path not found")
    scope = [em] + [b for k, b in F.bodies.items() if k.startswith(em.id + "::{closure")]
    path_strip = sum(1 for b in scope for _, c in b.calls() if (c.get("r") or c.get("f") or "").endswith("std::path::Path::strip_prefix") or (c.get("r") or c.get("f") or "").endswith("path::Path::strip_prefix"))
    str_strip = [(b, c) for b in scope for _, c in b.calls() if (c.get("r") or c.get("f") or "").endswith(("str>::strip_prefix", "<impl str>::strip_prefix", "<impl str>::starts_with", "str::strip_prefix", "str::starts_with"))]
    chk.check(path_strip >= 1 and not str_strip, "R33c", "root-match",
              "extract_module_path matches a workspace root with a string prefix operation (%s): a sibling directory whose name merely starts with the "
              "root's name is taken for part of that workspace and gets a bogus module path" % [((c.get("r") or c.get("f") or "").split("::")[-1]) for _, c in str_strip][:2],
              em.loc(str_strip[0][1]["l"] if str_strip else None), sample={"rule": "R33c", "verdict": "Path::strip_prefix only"})
    # R33d: writer and reader rewrite the same spelling
    import dataflow
    chk.rule("R33d", "every call of replace_module_path (the workspace.moduleMap rewrite) receives a separator-normalised path (the result of "
                     "`replace(['\\\\', '/'], \".\")`): the file side (add_module_by_path) and the require side (find_module) must present the same spelling to the rules")
    nrw = 0
    for k, b in F.bodies.items():
        if not k.startswith(MI + "::") or b.kind != "fn":
            continue
        for bb, c in b.calls():
            if not (c.get("r") or c.get("f") or "").endswith("LuaModuleIndex::replace_module_path") or len(c["a"]) < 2:
                continue
            nrw += 1
            l = dataflow.operand_local(c["a"][1])
            normalised = False
            seen, todo = set(), [l]
            while todo:
                x = todo.pop()
                if x is None or x in seen:
                    continue
                seen.add(x)
                for r in dataflow.roots(b, x):
                    if r[0] == "call":
                        cc = b.blocks[r[1]][2][1]
                        n = cc.get("r") or cc.get("f") or ""
                        if n.endswith("::replace") and "str" in n:
                            normalised = True
                        elif n.endswith(("Deref>::deref", "::as_str", "::as_ref", "Clone>::clone", "::to_string", "::to_owned")) and cc["a"]:
                            todo.append(dataflow.operand_local(cc["a"][0]))
            chk.check(normalised, "R33d", "module-map-input@%s" % k.split("::")[-1],
                      "%s hands replace_module_path a path whose separators were not normalised to `.` first: a moduleMap rule written with `\\.` (as the "
                      "require side sees it) no longer matches file paths, so files are indexed under the unmapped name and `require` of the mapped name "
                      "fails or resolves to another file" % k.split("::")[-1], b.loc(c["l"]),
                      sample={"rule": "R33d", "fn": k.split("::")[-1], "verdict": "normalised before the rewrite"})
    chk.floor("moduleMap rewrite call sites", nrw, 2)
    chk.explanation = "Hash-order taint of the return value of every module lookup function; dominance of both emptiness tests over node deletion; component-wise root matching."


def run_c35(chk, F, tier):
    chk.rule("R35a", "exported documentation lists are free of hash-iteration order")
    chk.rule("R35b", "top-level export lists are filtered by is_main")
    chk.assume("decides order and scope clauses; 'exactly once' and completeness are not decided")
    T = hashorder.OrderTaint(F)
    fns = [b for k, b in F.bodies.items() if k.startswith(DOC + "::") and b.kind == "fn" and b.local_ty_str(0).startswith("alloc::vec::Vec<")]
    chk.floor("export functions returning lists", len(fns), 4)
    for b in sorted(fns, key=lambda x: x.id):
        hs = ret_taint(T, b)
        chk.check(not hs, "R35a", b.id.split("::")[-1],
                  "the list returned by %s derives its order from hash iteration (%s): the generated documentation is not reproducible"
                  % (b.id.split("::")[-1], ["%s:%s" % (h[1].split("::")[-1], h[2]) for h in hs[:2]]), b.loc(),
                  witness={"sources": [list(h) for h in hs[:4]]},
                  sample={"rule": "R35a", "fn": b.id.split("::")[-1], "verdict": "order independent of hash seeds"})
    for top in ("export_modules", "export_types", "export_globals"):
        b = F.bodies.get(DOC + "::" + top)
        if b is None:
            raise RuleBroken("%s not found" % top)
        bodies = [b] + [x for k, x in F.bodies.items() if k.startswith(b.id + "::{closure")]
        has = any(name(c).endswith("LuaModuleIndex::is_main") or name(c).endswith("::is_main") for bd in bodies for _, c in bd.calls())
        chk.check(has, "R35b", top + ":is_main", "%s no longer filters by the main workspace: library/std items leak into the documentation" % top, b.loc())
    chk.explanation = "Hash-order taint of every exported list; presence of the main-workspace filter in the three top-level exporters."
