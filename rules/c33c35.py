"""C33 / C35 determinism (and scope) clauses via hash-order taint.

R33   the module chosen by LuaModuleIndex::{find_module, exact_find_module, fuzzy_find_module, find_module_node,
      find_module_by_normalized_path} never derives from hash-iteration order (a choice among several candidates must
      use a total tie-break).
R35a  every list exported by emmylua_doc_cli's JSON generator (return values of export*/functions returning Vec) is free
      of hash-iteration order.
R35b  each top-level export list is filtered by LuaModuleIndex::is_main (only main-workspace items are documented).
"""
import hashorder
from report import RuleBroken

MI = "emmylua_code_analysis::db_index::module::LuaModuleIndex"
DOC = "emmylua_doc_cli::json_generator::export"


def name(c):
    return c.get("r") or c.get("f") or ""


def ret_taint(T, b):
    def q():
        ls = set()
        for r in b.returns():
            ls |= T.local(b, 0, r)
        return ls
    return sorted(l for l in T.query(q) if l[0] == "HASH")


def run_c33(chk, F, tier):
    chk.rule("R33", "module lookup results never depend on hash-iteration order")
    chk.assume("decides determinism of the choice among candidates; pattern matching, module-map rewriting, exact-before-fuzzy and removal are not decided")
    chk.assume("min_by/max_by keys are total on the candidates")
    T = hashorder.OrderTaint(F)
    fns = [b for k, b in F.bodies.items() if k.startswith(MI + "::") and b.kind == "fn" and
           any(s in k.split("::")[-1] for s in ("find_module", "fuzzy_find", "exact_find"))]
    chk.floor("module lookup functions", len(fns), 4)
    for b in sorted(fns, key=lambda x: x.id):
        hs = ret_taint(T, b)
        chk.check(not hs, "R33", b.id.split("::")[-1],
                  "%s can return a module chosen by hash-iteration order (%s): `require` resolves to different files from run to run"
                  % (b.id.split("::")[-1], ["%s:%s" % (h[1].split("::")[-1], h[2]) for h in hs[:2]]), b.loc(),
                  witness={"sources": [list(h) for h in hs[:4]]},
                  sample={"rule": "R33", "fn": b.id.split("::")[-1], "verdict": "choice independent of hash order"})
    chk.explanation = "Hash-order taint of the return value of every module lookup function."


def run_c35(chk, F, tier):
    chk.rule("R35a", "exported documentation lists are free of hash-iteration order")
    chk.rule("R35b", "top-level export lists are filtered by is_main")
    chk.assume("decides order and scope clauses; 'exactly once' and completeness are not decided")
    T = hashorder.OrderTaint(F)
    fns = [b for k, b in F.bodies.items() if k.startswith(DOC + "::") and b.kind == "fn" and b.local_ty_str(0).startswith("alloc::vec::Vec<")]
    chk.floor("export functions returning lists", len(fns), 4)
    for b in sorted(fns, key=lambda x: x.id):
        hs = ret_taint(T, b)
        chk.check(not hs, "R35a", b.id.split("::")[-1],
                  "the list returned by %s derives its order from hash iteration (%s): the generated documentation is not reproducible"
                  % (b.id.split("::")[-1], ["%s:%s" % (h[1].split("::")[-1], h[2]) for h in hs[:2]]), b.loc(),
                  witness={"sources": [list(h) for h in hs[:4]]},
                  sample={"rule": "R35a", "fn": b.id.split("::")[-1], "verdict": "order independent of hash seeds"})
    for top in ("export_modules", "export_types", "export_globals"):
        b = F.bodies.get(DOC + "::" + top)
        if b is None:
            raise RuleBroken("%s not found" % top)
        bodies = [b] + [x for k, x in F.bodies.items() if k.startswith(b.id + "::{closure")]
        has = any(name(c).endswith("LuaModuleIndex::is_main") or name(c).endswith("::is_main") for bd in bodies for _, c in bd.calls())
        chk.check(has, "R35b", top + ":is_main", "%s no longer filters by the main workspace: library/std items leak into the documentation" % top, b.loc())
    chk.explanation = "Hash-order taint of every exported list; presence of the main-workspace filter in the three top-level exporters."
