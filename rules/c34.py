"""C34 (second sentence only): two URIs for the same path identify the same analysed file.

R34a  Vfs::file_id and Vfs::get_file_id resolve a uri through uri_to_file_path (percent-decoding) and look the file up in a map
      keyed by the decoded path; on that path they never consult a map keyed by the uri text.
R34b  inventory: every map/set keyed by Uri/Url in the analysis and the server is in the audited table below (a new uri-keyed
      store of per-file state would split one file into one entry per spelling).
The round trip path -> uri -> path over all strings is value-level behaviour of the `url` crate and of percent-decoding and is
not decided.
"""
from report import RuleBroken

VFS = "emmylua_code_analysis::vfs::Vfs"
URI_KEYED_AUDITED = {
    "emmylua_code_analysis::db_index::schema::JsonSchemaIndex.schema_files":
        "keys are the urls of JSON schemas named in configuration, not workspace files",
    "emmylua_code_analysis::vfs::Vfs.remote_file_id_map":
        "only reached through virtual_file_id / set_remote_file_content, i.e. for documents that are not files on disk; file uris go through file_id",
    "emmylua_ls::context::workspace_manager::WorkspaceManager.open_file_texts":
        "editor buffers under the client's own spelling (one client, one spelling); reconciliation with disk files is by path (C29 R29a)",
}


def name(c):
    return c.get("r") or c.get("f") or ""


def run(chk, F, tier):
    chk.rule("R34a", "Vfs::file_id / get_file_id go through uri_to_file_path and a path-keyed map, never a uri-keyed one")
    chk.rule("R34b", "every Uri/Url-keyed map or set in the analysis and the server is audited")
    chk.assume("decides only 'two URIs for the same path identify the same analysed file'; the path <-> uri round trip over all strings is value level")
    for fn in ("file_id", "get_file_id"):
        b = F.bodies.get(VFS + "::" + fn)
        if b is None:
            raise RuleBroken("Vfs::%s not found" % fn)
        conv = [bb for bb, c in b.calls() if name(c).endswith("uri_to_file_path")]
        uri_maps = []
        path_maps = 0
        for bb, c in b.calls():
            n = name(c)
            if ("HashMap" in n or "BTreeMap" in n) and c["a"]:
                t = b.ty_str_op(c["a"][0])
                key = t.split("<", 1)[1].split(",")[0] if "<" in t else ""
                if "Uri" in key or "Url" in key:
                    uri_maps.append(c["l"])
                if "PathBuf" in key:
                    path_maps += 1
        chk.check(bool(conv) and not uri_maps and path_maps >= 1, "R34a", "vfs-%s" % fn,
                  "Vfs::%s %s: the same file reached through two percent-encodings of its path would get two ids"
                  % (fn, "looks a uri-keyed map up" if uri_maps else "no longer resolves the uri through uri_to_file_path and a path-keyed map"),
                  b.loc(uri_maps[0] if uri_maps else None), sample={"rule": "R34a", "fn": fn, "verdict": "decoded path is the key"})
    n = 0
    for aid, adt in sorted(F.adts.items()):
        if not aid.startswith(("emmylua_code_analysis", "emmylua_ls", "emmylua_check", "emmylua_doc_cli")):
            continue
        types = adt["_types"]
        for v in adt["variants"]:
            for f in v["fields"]:
                t = types[f["ty"]][0]
                if not ("HashMap<" in t or "HashSet<" in t or "BTreeMap<" in t or "BTreeSet<" in t or "IndexMap<" in t):
                    continue
                first = t.split("<", 1)[1].split(",")[0]
                if not ("::Uri" in first or "::Url" in first or first.endswith(("Uri", "Url", "Uri>", "Url>"))):
                    continue
                n += 1
                key = "%s.%s" % (aid, f["name"])
                chk.check(key in URI_KEYED_AUDITED, "R34b", key,
                          "`%s: %s` is keyed by the uri text: state stored for one spelling of a file's uri is invisible under another spelling of the "
                          "same path (keys for files must be the decoded path or the FileId)" % (f["name"], t[:100]), "%s:%s" % (adt["file"], adt["line"]),
                          sample={"rule": "R34b", "field": key, "verdict": "audited", "reason": URI_KEYED_AUDITED.get(key)})
    chk.floor("uri-keyed containers", n, 3)
    chk.explanation = "Callee/receiver-type scan of the two Vfs lookups; inventory of uri-keyed containers from the ADT facts."
