"""C34 (second sentence only): two URIs for the same path identify the same analysed file.

R34a  Vfs::file_id and Vfs::get_file_id resolve a uri through uri_to_file_path (percent-decoding) and look the file up in a map
      keyed by the decoded path; on that path they never consult a map keyed by the uri text.
R34b  inventory: every map/set keyed by Uri/Url in the analysis and the server is in the audited table below (a new uri-keyed
      store of per-file state would split one file into one entry per spelling).
R34c  necessary condition of the round trip: uri_to_file_path percent-decodes the url path exactly once on every path to a Some
      result (no decode call is reachable from another one, the decoder's input is Url::path() and nothing else), and
      file_path_to_uri encodes through Url::from_file_path only (no percent-encoding / replace call of its own). Decoding twice
      maps `100%25.lua` and `100%.lua` (or `a%2541` and `a%41`) to one path: the round trip and file identity both break.
The round trip path -> uri -> path over all strings is value-level behaviour of the `url` crate and of percent-decoding and is
not decided.
"""
import cfgutil
import dataflow
from report import RuleBroken

VFS = "emmylua_code_analysis::vfs::Vfs"
URI_KEYED_AUDITED = {
    "emmylua_code_analysis::db_index::schema::JsonSchemaIndex.schema_files":
        "keys are the urls of JSON schemas named in configuration, not workspace files",
    "emmylua_code_analysis::vfs::Vfs.remote_file_id_map":
        "only reached through virtual_file_id / set_remote_file_content, i.e. for documents that are not files on disk; file uris go through file_id",
    "emmylua_ls::context::workspace_manager::WorkspaceManager.open_file_texts":
        "editor buffers under the client's own spelling (one client, one spelling); reconciliation with disk files is by path (C29 R29a)",
}


def name(c):
    return c.get("r") or c.get("f") or ""


def run(chk, F, tier):
    chk.rule("R34a", "Vfs::file_id / get_file_id go through uri_to_file_path and a path-keyed map, never a uri-keyed one")
    chk.rule("R34b", "every Uri/Url-keyed map or set in the analysis and the server is audited")
    chk.assume("decides only 'two URIs for the same path identify the same analysed file'; the path <-> uri round trip over all strings is value level")
    for fn in ("file_id", "get_file_id"):
        b = F.bodies.get(VFS + "::" + fn)
        if b is None:
            raise RuleBroken("Vfs::%s not found" % fn)
        conv = [bb for bb, c in b.calls() if name(c).endswith("uri_to_file_path")]
        uri_maps = []
        path_maps = 0
        for bb, c in b.calls():
            n = name(c)
            if ("HashMap" in n or "BTreeMap" in n) and c["a"]:
                t = b.ty_str_op(c["a"][0])
                key = t.split("<", 1)[1].split(",")[0] if "<" in t else ""
                if "Uri" in key or "Url" in key:
                    uri_maps.append(c["l"])
                if "PathBuf" in key:
                    path_maps += 1
        chk.check(bool(conv) and not uri_maps and path_maps >= 1, "R34a", "vfs-%s" % fn,
                  "Vfs::%s %s: the same file reached through two percent-encodings of its path would get two ids"
                  % (fn, "looks a uri-keyed map up" if uri_maps else "no longer resolves the uri through uri_to_file_path and a path-keyed map"),
                  b.loc(uri_maps[0] if uri_maps else None), sample={"rule": "R34a", "fn": fn, "verdict": "decoded path is the key"})
    run_r34c(chk, F)
    n = 0
    for aid, adt in sorted(F.adts.items()):
        if not aid.startswith(("emmylua_code_analysis", "emmylua_ls", "emmylua_check", "emmylua_doc_cli")):
            continue
        types = adt["_types"]
        for v in adt["variants"]:
            for f in v["fields"]:
                t = types[f["ty"]][0]
                if not ("HashMap<" in t or "HashSet<" in t or "BTreeMap<" in t or "BTreeSet<" in t or "IndexMap<" in t):
                    continue
                first = t.split("<", 1)[1].split(",")[0]
                if not ("::Uri" in first or "::Url" in first or first.endswith(("Uri", "Url", "Uri>", "Url>"))):
                    continue
                n += 1
                key = "%s.%s" % (aid, f["name"])
                chk.check(key in URI_KEYED_AUDITED, "R34b", key,
                          "`%s: %s` is keyed by the uri text: state stored for one spelling of a file's uri is invisible under another spelling of the "
                          "same path (keys for files must be the decoded path or the FileId)" % (f["name"], t[:100]), "%s:%s" % (adt["file"], adt["line"]),
                          sample={"rule": "R34b", "field": key, "verdict": "audited", "reason": URI_KEYED_AUDITED.get(key)})
    chk.floor("uri-keyed containers", n, 3)
    chk.explanation = "Callee/receiver-type scan of the two Vfs lookups; inventory of uri-keyed containers from the ADT facts."


def run_r34c(chk, F):
    chk.rule("R34c", "uri_to_file_path percent-decodes Url::path() exactly once; file_path_to_uri encodes through Url::from_file_path only")
    H = "emmylua_code_analysis::vfs::file_uri_handler::"
    b = F.bodies.get(H + "uri_to_file_path")
    e = F.bodies.get(H + "file_path_to_uri")
    if b is None or e is None:
        raise RuleBroken("uri_to_file_path / file_path_to_uri not found")
    dec = [(bb, c) for bb, c in b.calls() if name(c).startswith("percent_encoding::percent_decode")]
    succ = b.succ_map()
    twice = None
    for bb, c in dec:
        later = cfgutil.reachable(succ, bb) - {bb}
        for bb2, c2 in dec:
            if bb2 in later or (bb2 == bb and bb in cfgutil.reachable(succ, succ[bb][0] if succ[bb] else bb)):
                twice = (c["l"], c2["l"])
    chk.check(len(dec) >= 1 and twice is None, "R34c", "decode-once",
              "uri_to_file_path %s: a path containing a literal '%%' followed by two hex digits does not survive path -> uri -> path, and two "
              "distinct files collapse onto one id" % ("can percent-decode twice on one path (lines %s)" % (twice,) if twice else "no longer percent-decodes the url path"),
              b.loc(twice[1] if twice else None), witness={"decode_calls": [c["l"] for _, c in dec]},
              sample={"rule": "R34c", "fn": "uri_to_file_path", "verdict": "one decode on every path"})
    # the decoder's input is Url::path()
    bad_src = None
    for bb, c in dec:
        l = dataflow.operand_local(c["a"][0]) if c["a"] else None
        roots = dataflow.roots(b, l) if l is not None else set()
        ok = roots and all(r[0] == "call" and name(b.blocks[r[1]][2][1]).endswith("Url::path") for r in roots)
        if not ok:
            bad_src = c["l"]
    chk.check(bad_src is None, "R34c", "decode-source",
              "the percent-decoder in uri_to_file_path is fed something other than Url::path() (a value that was already decoded or re-encoded)",
              b.loc(bad_src), sample={"rule": "R34c", "fn": "uri_to_file_path", "verdict": "decoder input is Url::path()"})
    enc = [c["l"] for bb, c in e.calls() if name(c).startswith("percent_encoding::") or name(c).endswith(("::replace", "::replacen"))]
    via = [c["l"] for bb, c in e.calls() if name(c).endswith("Url::from_file_path")]
    chk.check(bool(via) and not enc, "R34c", "encode-once",
              "file_path_to_uri %s: paths are no longer encoded exactly once by Url::from_file_path" %
              ("adds its own encoding/replacement step" if enc else "does not go through Url::from_file_path"),
              e.loc(enc[0] if enc else None), sample={"rule": "R34c", "fn": "file_path_to_uri", "verdict": "Url::from_file_path only"})
