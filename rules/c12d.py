"""R12d: memoising graph searches start from an empty visited set.

A *search* is a recursive function that carries a `&mut HashSet<..>` parameter and inserts into it (it stops when the element
was seen).  Pass-through wrappers (functions that hand their own `&mut HashSet` parameter to a search) belong to the search.
Every call that enters a search from outside must pass a set that is empty at that point: created (HashSet::new / default /
with_capacity) or cleared on every path right before the call, with no other use in between, and -- when the call sits in a
loop or in a closure that runs once per element -- created or cleared inside that same loop / closure body.
Otherwise an earlier query's marks make the search stop early and report "not reachable" for something reachable; for the
cycle filters of the type index that re-admits a cyclic edge and unguarded recursions over super types never terminate.
"""
import callgraph
import cfgutil
import dataflow

CA = "emmylua_code_analysis"
FRESH = ("HashSet::<T, S>::new", "HashSet::<T>::new", "::default", "HashSet::<T, S>::with_capacity", "HashSet::<T, S, A>::new",
         "HashSet::<K, S>::new", "::with_capacity", "::with_hasher", "HashSet::new")


def name(c):
    return c.get("r") or c.get("f") or ""


def _set_params(b):
    return [i for i in range(1, b.argc + 1) if b.local_ty_str(i).startswith("&mut ") and "HashSet<" in b.local_ty_str(i)]


def _root_key(b, op):
    """identity of the set behind an operand: root locals / upvar places, reference-insensitive"""
    l = dataflow.operand_local(op)
    if l is None:
        return None
    out = set()
    for r in dataflow.roots(b, l):
        if r[0] == "place":
            out.add(("place", r[1], tuple(e for e in r[2] if e != "*")))
        elif r[0] == "call":
            c = b.blocks[r[1]][2][1]
            if name(c).endswith(("DerefMut>::deref_mut", "Deref>::deref", "::as_mut", "::borrow_mut")) and c["a"]:
                k = _root_key(b, c["a"][0])
                if k:
                    out |= set(k)
                continue
            out.add(("call", r[1]))
        else:
            out.add(r)
    return frozenset(out)


def run_r12d(chk, F):
    rule = "R12d"
    chk.rule(rule, "every call entering a memoising search (recursive function with a `&mut HashSet` it inserts into) passes a set that was "
                   "created or cleared right before the call, inside the same loop / per-element closure")
    cg = callgraph.CallGraph(F)
    scope = {k for k, b in F.bodies.items() if b.crate == CA and b.kind == "fn" and "::test" not in k and "/test" not in b.file}
    searches = {}
    for k in scope:
        b = F.bodies[k]
        ps = _set_params(b)
        if not ps:
            continue
        inner = {x for x in cg.callees(k) if x in scope or x.startswith(k + "::{closure")}
        rec = k in cg.reachable(list(inner))
        ins = any(name(c).endswith("::insert") and c["a"] and "HashSet" in b.ty_str_op(c["a"][0]) for _, c in b.calls())
        if rec and ins:
            searches[k] = ps
    # wrappers: non-search functions that pass their own set parameter to a search
    changed = True
    while changed:
        changed = False
        for k in scope:
            if k in searches:
                continue
            b = F.bodies[k]
            ps = _set_params(b)
            if not ps:
                continue
            for bb, c in b.calls():
                if name(c) in searches:
                    for a in c["a"]:
                        rk = _root_key(b, a)
                        if rk and any(r == ("arg", p) for r in rk for p in ps):
                            searches[k] = ps
                            changed = True
            # ... or do so from a closure of theirs (the parameter is captured; the closure creates no set of its own)
            if k not in searches:
                for ck, cb in F.bodies.items():
                    if not ck.startswith(k + "::{closure"):
                        continue
                    for bb, c in cb.calls():
                        if name(c) in searches and not any(name(cc).endswith(FRESH) and len(cc["d"]) == 1 and "HashSet<" in cb.local_ty_str(cc["d"][0]) for _, cc in cb.calls()):
                            for i, a in enumerate(c["a"]):
                                if (i + 1) in searches[name(c)]:
                                    rk = _root_key(cb, a)
                                    if rk and all(r[0] == "place" and r[1] == 1 for r in rk):
                                        searches[k] = ps
                                        changed = True
    chk.unit("memoising searches (with pass-through wrappers)", len(searches))
    nentry = 0
    for bid in sorted(F.bodies):
        b = F.bodies[bid]
        if b.crate != CA or "::test" in bid or "/test" in b.file:
            continue
        owner = bid.split("::{closure")[0]
        succ = None
        for bb, c in b.calls():
            callee = name(c)
            if callee not in searches:
                continue
            # which argument is the set
            set_args = [a for i, a in enumerate(c["a"]) if (i + 1) in searches[callee]]
            for a in set_args:
                rk = _root_key(b, a)
                if rk is None:
                    continue
                # a recursive / wrapper-internal call passing the function's own parameter on: not an entry
                if owner in searches and all(r[0] == "arg" and r[1] in searches[owner] for r in rk) and b.kind == "fn":
                    continue
                if owner in searches and b.kind == "closure" and all(r[0] == "place" and r[1] == 1 for r in rk) and \
                        not any(name(cc).endswith("::clear") for _, cc in b.calls()) and _closure_passes_param(F, b, rk, searches.get(owner)):
                    continue
                nentry += 1
                if succ is None:
                    succ = b.succ_map()
                    idom = cfgutil.dominators(succ, 0)
                    loops = cfgutil.natural_loops(succ, 0)
                key = "fresh-visited@%s->%s" % (bid.replace(CA + "::", ""), callee.split("::")[-1])
                # candidate reset points: creation of the root local / clear() on the same root
                resets = []
                for bi, cc in b.calls():
                    n = name(cc)
                    if n.endswith("::clear") and cc["a"] and _root_key(b, cc["a"][0]) == rk:
                        resets.append(bi)
                    if n.endswith(FRESH) and len(cc["d"]) == 1 and "HashSet<" in b.local_ty_str(cc["d"][0]) and \
                            any(r == ("call", bi) or (r[0] == "call" and r[1] == bi) for r in rk):
                        resets.append(bi)
                # creation through a plain local: root local defined by a fresh call
                for r in rk:
                    if r[0] == "call":
                        cc = b.blocks[r[1]][2][1]
                        if name(cc).endswith(FRESH):
                            resets.append(r[1])
                others = [bi for bi, cc in b.calls() if bi != bb and not name(cc).endswith("::clear") and
                          any(_root_key(b, x) == rk for x in cc["a"]) and not name(cc).endswith(FRESH)]
                ok = False
                why = "no creation or clear() of the set dominates the call"
                for d in resets:
                    if not (d == bb or cfgutil.dominates(idom, d, bb)):
                        continue
                    # same loop nest
                    in_call = [h for h, body in loops.items() if bb in body]
                    if any(d not in loops[h] for h in in_call):
                        why = "the set is created/cleared outside the loop that contains the call: later iterations see the earlier marks"
                        continue
                    # no other use between d and the call
                    between = cfgutil.reachable(succ, d) & {x for x in range(len(b.blocks)) if bb in cfgutil.reachable(succ, x) or x == bb}
                    if any(o in between and o != d for o in others if cfgutil.dominates(idom, d, o) and bb in cfgutil.reachable(succ, o)):
                        why = "another call uses the set between its reset and this search"
                        continue
                    ok = True
                    break
                chk.check(ok, rule, key,
                          "%s enters the memoising search %s with a visited set that is not provably empty (%s): marks left by an earlier search make "
                          "this one stop early, e.g. a cyclic super edge passes the cycle filter and the unguarded walks over super types recurse forever"
                          % (bid.split("::")[-1] if not bid.endswith("}") else "::".join(bid.split("::")[-2:]), callee.split("::")[-1], why),
                          b.loc(c["l"]), sample={"rule": rule, "site": key, "verdict": "set created or cleared right before the search"})
    chk.floor("entry calls into memoising searches", nentry, 4)
    return nentry


def _closure_passes_param(F, b, rk, owner_params):
    """closure inside a search that forwards the enclosing function's own set parameter (captured by reference)"""
    return owner_params is not None
