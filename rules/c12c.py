"""R12c: bounds audit of the analysis crate.  Every indexing / slicing / positional Vec operation in non-test code of
emmylua_code_analysis must be discharged by a bounds fact the checker derives itself (lib/bounds.py: dominating comparison
with len(), range/enumerate iteration variable, non-empty test, find/rfind position) or by an entry of
tables/panic_audit.json (one line of reason; keyed by function, kind and ordinal).
"""
import bounds
import dataflow
import panics
import panicsurface

CA = "emmylua_code_analysis"
KINDS = ("slice-range", "vec-insert", "vec-remove", "vec-drain", "str-slice", "textrange-new", "string-range",
         "regex-captures-index", "index", "split", "string-remove", "string-insert", "string-truncate", "slice-len")


def name(c):
    return c.get("r") or c.get("f") or ""


def _range_agg(b, op):
    l = dataflow.operand_local(op)
    if l is None:
        return None
    for d in dataflow.def_sites(b).get(l, []):
        if d[0] == "stmt" and d[3][0] == "agg" and d[3][2] and "ops::range::" in d[3][2]:
            return d[3][2].split("::")[-1], d[3][4]
    # RangeFull is a unit struct constant
    if "RangeFull" in b.local_ty_str(l):
        return "RangeFull", []
    return None


def _find_position(b, op):
    """the operand is the Some payload of str::find / rfind (a char boundary of that string)"""
    l = dataflow.operand_local(op)
    if l is None:
        return False
    todo, seen = [l], set()
    while todo:
        x = todo.pop()
        if x in seen:
            continue
        seen.add(x)
        for r in dataflow.roots(b, x):
            if r[0] == "place" and r[2] and isinstance(r[2][0], (list, tuple)) and r[2][0][0] == "d" and r[2][0][1] in ("Some", "Continue"):
                todo.append(r[1])
            elif r[0] == "call":
                n = name(b.blocks[r[1]][2][1])
                if n.endswith(("::find", "::rfind", "Try>::branch")):
                    if n.endswith("Try>::branch"):
                        la = dataflow.operand_local(b.blocks[r[1]][2][1]["a"][0])
                        if la is not None:
                            todo.append(la)
                    else:
                        return True
                else:
                    return False
            elif r[0] == "arg" and b.kind == "closure":
                # |idx| &s[..idx] inside Option::map of a find result: judged at the audit table
                return False
            else:
                return False
    return False


def recognise(F, b, B, bb, kind):
    t = b.blocks[bb][2]
    if t[0] == "assert":
        # BoundsCheck: cond = Lt(idx, PtrMetadata(seq))
        cond = t[1]
        l = dataflow.operand_local(cond)
        for d in dataflow.def_sites(b).get(l, []) if l is not None else []:
            if d[0] == "stmt" and d[3][0] == "bin" and d[3][1] == "Lt":
                idx, ln = d[3][2], d[3][3]
                # constant index into a fixed-size array
                kl = B.val_key(ln)
                ki = B.val_key(idx)
                if ki[0] == "int" and kl[0] == "int" and ki[1] < kl[1]:
                    return "constant index into a fixed-size array"
                if kl[0] == "len":
                    if ki[0] == "int":
                        w = B.const_index_ok(bb, ki[1], kl[1])
                        if w:
                            return w
                    w = B._le_len(ki, kl[1], True, bb)
                    if w:
                        return w
                    if ki == ("int", 0):
                        for tgt, x, strict, y in B.edge_facts():
                            if x == ("int", 0) and strict and y == kl and B._holds_at(tgt, bb):
                                return "index 0 after a non-empty test"
        return None
    c = t[1]
    if kind == "textrange-new" and len(c["a"]) == 2:
        from rules import c25c
        return c25c._order_recognised(b, bb, c["a"][0], c["a"][1])
    if kind == "index" and len(c["a"]) == 2:
        return B.index_ok(bb, c["a"][0], c["a"][1])
    if kind == "slice-range" and len(c["a"]) == 2:
        ra = _range_agg(b, c["a"][1])
        if ra is None:
            return None
        rk, ops = ra
        if rk == "RangeFull":
            return "full range"
        if rk == "RangeFrom":
            return B.range_from_ok(bb, c["a"][0], ops[0])
        if rk in ("RangeTo",):
            return B.range_from_ok(bb, c["a"][0], ops[0])
        return None
    if kind == "vec-insert" and len(c["a"]) >= 2:
        if c["a"][1][0] == "k" and c["a"][1][1] == "int" and c["a"][1][2] == 0:
            return "insert at index 0"
        return B.range_from_ok(bb, c["a"][0], c["a"][1])
    if kind == "vec-remove" and len(c["a"]) >= 2:
        return B.index_ok(bb, c["a"][0], c["a"][1])
    if kind == "vec-drain" and len(c["a"]) >= 2:
        ra = _range_agg(b, c["a"][1])
        if ra and ra[0] == "RangeFull":
            return "drain(..)"
        return None
    if kind == "str-slice" and len(c["a"]) == 2:
        why = panicsurface.recognise(F, b, bb, "str-slice")
        if why:
            return why
        ra = _range_agg(b, c["a"][1])
        if ra and ra[0] in ("RangeTo", "RangeFrom") and _find_position(b, ra[1][0]):
            return "position returned by str::find/rfind on a string (char boundary inside it)"
        if ra and ra[0] == "RangeFull":
            return "full range"
        return None
    return None


def run_r12c(chk, F):
    return bounds_audit(chk, F, "R12c", "C12", CA, "the analysis crate", "the analysis panics")


def bounds_audit(chk, F, rule, prop, crate, what, effect, only=None, kinds=None):
    kinds = kinds or KINDS
    chk.rule(rule, "every index / slice / positional Vec or String operation in %s is in bounds by a derived fact "
                   "(comparison with len, iteration variable, non-empty test, find position) or by an audited entry" % what)
    table = panicsurface.load_table()
    n = rec = aud = 0
    per_kind = {}
    for bid in sorted(F.bodies):
        b = F.bodies[bid]
        if only is not None and bid not in only:
            continue
        if b.crate != crate or "::test" in bid or "/test" in b.file or b.file.endswith("_test.rs") or b.kind in ("const", "static", "promoted"):
            continue
        B = None
        ordinal = {}
        for bb, kind, line, detail in panics.sites(b):
            if kind not in kinds:
                continue
            k = (kind, detail.split("::")[-1])
            ordinal[k] = ordinal.get(k, 0) + 1
            key = "%s|%s|%s:%s#%d" % (prop, bid, kind, detail.split("::")[-1], ordinal[k])
            n += 1
            per_kind[kind] = per_kind.get(kind, 0) + 1
            if B is None:
                B = bounds.Bounds(F, b)
            why = recognise(F, b, B, bb, kind)
            if why:
                rec += 1
                chk.ok(rule, key, {"rule": rule, "site": b.loc(line), "kind": kind, "verdict": "bounds fact", "reason": why})
            elif key in table:
                aud += 1
                chk.ok(rule, key, {"rule": rule, "site": b.loc(line), "kind": kind, "verdict": "audited", "reason": table[key]})
            else:
                chk.violation(rule, key, "no bounds fact and no audited entry for this %s site (%s): on some input the index may be out of "
                                         "range and %s" % (kind, detail.split("::")[-1], effect), b.loc(line),
                              witness={"kind": kind, "callee": detail})
    chk.unit("bounds-sensitive sites in %s" % what, n)
    chk.unit("sites discharged by a derived bounds fact", rec)
    chk.unit("sites discharged by the audited table", aud)
    chk.note("sites per kind: %s" % sorted(per_kind.items()))
    return n, rec, aud


def uint_sub_audit(chk, F, rule, prop, crate, what, effect, only=None):
    """every unsigned subtraction (usize/u32/u64) of the given bodies has a dominating `minuend >= subtrahend` fact or an audited entry"""
    from rules import c25c
    table = panicsurface.load_table()
    nsub = rs = au = 0
    for bid in sorted(F.bodies):
        b = F.bodies[bid]
        if only is not None and bid not in only:
            continue
        if b.crate != crate or "::test" in bid or "/test" in b.file or b.kind in ("const", "static", "promoted"):
            continue
        B = None
        k = 0
        for bi, blk in enumerate(b.blocks):
            if blk[0]:
                continue
            for st in blk[1]:
                if not (st[0] == "a" and st[2][0] == "bin" and st[2][1] in ("Sub", "SubWithOverflow")):
                    continue
                t = b.local_ty_str(st[1][0]) if len(st[1]) == 1 else ""
                if not (t in ("usize", "u32", "u64") or t.startswith(("(usize", "(u32", "(u64"))):
                    continue
                k += 1
                nsub += 1
                key = "%s|%s|uint-sub#%d" % (prop, bid, k)
                if B is None:
                    B = bounds.Bounds(F, b)
                loc = b.loc(st[3] if len(st) > 3 else None)
                why = c25c._sub_ok(B, bi, st[2][2], st[2][3])
                if why:
                    rs += 1
                    chk.ok(rule, key, {"rule": rule, "site": loc, "kind": "uint-sub", "verdict": "guard recognised", "reason": why})
                elif key in table:
                    au += 1
                    chk.ok(rule, key, {"rule": rule, "site": loc, "kind": "uint-sub", "verdict": "audited", "reason": table[key]})
                else:
                    chk.violation(rule, key, "unsigned subtraction without a recognised guard (minuend >= subtrahend) or an audited entry in %s: "
                                             "for some input it underflows -- a panic in debug builds, a wrapped length/offset (and an "
                                             "out-of-range index or slice) in release builds; %s" % (what, effect), loc, witness={"kind": "uint-sub"})
    chk.unit("unsigned subtractions discharged by a recognised guard", rs)
    chk.unit("unsigned subtractions discharged by the audited table", au)
    return nsub, rs, au
