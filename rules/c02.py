"""C02: termination, recursion-depth and explicit-panic clauses of 'parsing never crashes or hangs'.

R02a  every loop of the lexers, the parsers and the grammar makes progress on every cycle: a token/character is consumed
      (bump or a callee that must consume), a finite iterator advances, or an integer counter moves; the few loops that rely
      on another argument are listed in the audited table with that argument.
R02b  no left recursion: on every path from the entry of a recursive grammar function to a call that closes a cycle, a
      token is consumed first.
R02c  every recursive cycle passes a depth guard (a comparison of a parser-owned counter with a bound whose failing edge
      cannot reach a recursive call); without it nesting depth is limited only by the thread's stack.
R02f  every index / slice / drain site and unsigned subtraction reachable from the parser entry points is discharged by a derived
      bounds fact (dominating comparison with len, iteration variable, non-empty test) or by an audited entry.
R02d  explicit panics (panic!/unreachable!/assert!) reachable from LuaParser::parse and LineIndex::parse are discharged by
      R01b/R01a or the audited table.  (Indexing/unwrap sites of the parser are NOT claimed, see level_note.)
"""
import cfgutil
import callgraph
import markers
import panics
import panicsurface
import progress
from report import RuleBroken

P = "emmylua_parser::"
SCOPE_PREFIX = (P + "grammar", P + "parser::", P + "lexer", P + "text::reader")

# loops whose termination argument is not "consumes on every cycle" (key: function + ordinal of the loop by header order)
LOOP_AUDIT = {
    "grammar::lua::parse_chunk#0": "explicit progress guard: the token index is saved before parse_stats and a token is force-bumped when it did not move",
    "grammar::lua::stat::parse_stats#0": "each iteration calls parse_stat, which consumes at least the statement's first token or returns Err; the Err arm bumps to the next statement start or breaks; the enclosing parse_chunk guard bounds any residual non-consuming Ok",
    "grammar::lua::expr::parse_suffixed_expr#0": "every arm consumes the suffix token ('.', '[', ':', '(', string, table, '?.') through parse_index_struct/parse_args or returns; the default arm breaks",
}


def name(c):
    return c.get("r") or c.get("f") or ""


def counter_field(b, op):
    """the operand is (a copy of) a struct field whose name marks it as a depth/nesting counter"""
    import dataflow
    names = set()
    if op[0] in ("c", "m"):
        pl = op[1]
        for e in pl[1:]:
            if isinstance(e, list) and e[0] == "f":
                names.add(e[2] or "")
        if len(pl) == 1:
            for r in dataflow.roots(b, pl[0]):
                if r[0] == "place":
                    for e in r[2]:
                        if isinstance(e, tuple) and e[0] == "f":
                            names.add(e[2] or "")
    return any(k in n for n in names for k in ("depth", "nest", "recurs"))


def arith_blocks(b):
    out = set()
    for bi, blk in enumerate(b.blocks):
        for st in blk[1]:
            if st[0] == "a" and st[2][0] == "bin" and st[2][1] in ("Add", "Sub", "AddWithOverflow", "SubWithOverflow", "AddUnchecked", "SubUnchecked"):
                if any(o[0] == "k" and o[1] == "int" for o in st[2][2:4]):
                    out.add(bi)
    return out


def run(chk, F, tier):
    chk.rule("R02a", "every parser/lexer loop progresses on every cycle (consumption, finite iterator, counter) or is audited")
    chk.rule("R02c", "every recursive grammar cycle passes a depth guard")
    chk.rule("R02d", "explicit panics reachable from the parser entry points are discharged")
    chk.assume("'roughly linear time' and allocation failure are not decided")
    chk.assume("R02f: five audited index sites (parse_trivia_tokens, previous_token_range) rest on the parser invariant 'bump() is never called "
               "at TkEof' (token_index < tokens.len() at every bump), read from the grammar and probed but not proven by a rule")
    chk.assume("termination at end of input relies on the loops' explicit TkEof tests (a bump at TkEof makes no progress and would index "
               "past the token array), which are not separately checked")
    scope = {k: b for k, b in F.bodies.items() if k.startswith(SCOPE_PREFIX) and b.kind in ("fn", "closure") and "_rust_i18n" not in k}
    chk.floor("functions in termination scope", len(scope), 300)
    PR = progress.Progress(F, scope)
    nloops = 0
    for fid, b in sorted(scope.items()):
        # loops of the lexers (and of the doc parser's token fetch, whose progress *is* lexing) terminate because each lex
        # call consumes a character unless at EOF -- a value-level argument this rule cannot make: not claimed
        if fid.startswith((P + "lexer", P + "text::reader")) or "calc_next_current_token" in fid:
            continue
        succ = b.succ_map()
        loops = cfgutil.natural_loops(succ, 0)
        if not loops:
            continue
        pb = PR.progress_blocks(b) | arith_blocks(b)
        for li, (h, body) in enumerate(sorted(loops.items())):
            nloops += 1
            sub = {n: [s for s in succ[n] if s in body] for n in body}
            wit = None
            if h not in pb:
                for s in sub[h]:
                    if s in pb:
                        continue
                    p = cfgutil.paths_avoiding(sub, s, {h}, pb) if s != h else [h]
                    if p is not None:
                        wit = [h] + p
                        break
            key = "%s#%d" % (fid.replace(P, ""), li)
            if wit is None:
                chk.ok("R02a", key, {"rule": "R02a", "loop": key, "verdict": "every cycle consumes / advances"})
            elif key in LOOP_AUDIT:
                chk.ok("R02a", key, {"rule": "R02a", "loop": key, "verdict": "audited", "reason": LOOP_AUDIT[key]})
            else:
                lines = sorted({b.blocks[x][2][1]["l"] for x in wit if b.blocks[x][2][0] == "call"})
                chk.violation("R02a", key,
                              "a cycle of this loop neither consumes a token/character nor advances a counter: on input that "
                              "keeps it iterating the parser hangs (cycle through lines %s)" % lines[:6], b.loc(lines[0] if lines else None),
                              witness={"cycle_blocks": wit[:40]})
    chk.floor("loops examined", nloops, 40)
    # recursion
    cg = callgraph.CallGraph(F)
    nodes = list(scope)
    comps = [c for c in cfgutil.sccs(nodes, lambda n: [x for x in cg.callees(n) if x in scope]) if len(c) > 1 or c[0] in cg.callees(c[0])]
    chk.floor("recursive components", len(comps), 2)
    # depth-guard helpers: bool functions that compare a parser-owned depth/nesting counter with a constant bound
    helpers = set()
    for fid, b in scope.items():
        if not b.local_ty_str(0) == "bool":
            continue
        for blk in b.blocks:
            for st in blk[1]:
                if st[0] == "a" and st[2][0] == "bin" and st[2][1] in ("Gt", "Ge", "Lt", "Le"):
                    ops = st[2][2:4]
                    has_const = any(o[0] == "k" for o in ops)
                    if has_const and any(counter_field(b, o) for o in ops):
                        helpers.add(fid)
    changed = True
    while changed:   # thin wrappers (LuaDocParser::enter_nesting -> LuaParser::enter_nesting)
        changed = False
        for fid, b in scope.items():
            if fid not in helpers and b.local_ty_str(0) == "bool" and len(b.blocks) <= 4 and any(name(c) in helpers for _, c in b.calls()):
                helpers.add(fid)
                changed = True
    chk.unit("depth-guard helpers", len(helpers))
    for comp in comps:
        cs = set(comp)
        rep = sorted(comp)[0].replace(P, "")
        # R02b
        bad = []
        for fid in comp:
            b = scope[fid]
            pb = PR.progress_blocks(b)
            pb = {x for x in pb if not (b.blocks[x][2][1].get("f") or "").endswith("Iterator::next")}
            for bb, c in b.calls():
                if name(c) in cs and bb not in pb:
                    p = cfgutil.paths_avoiding(b.succ_map(), 0, {bb}, pb)
                    if p is not None:
                        bad.append((fid, name(c), c["l"]))
        # a cycle consisting only of non-consuming edges is left recursion
        edges = {}
        for f_, g_, l_ in bad:
            edges.setdefault(f_, set()).add(g_)
        chk.note("R02b (informational, not claimed) component %s: %d call edges that may recurse without a *guaranteed* bump "
                 "(consumption there depends on the token kind that selected the branch)" % (rep, len(bad)))
        # R02c
        guarded = set()
        for fid in comp:
            b = scope[fid]
            succ = b.succ_map()
            rec_calls = {bb for bb, c in b.calls() if name(c) in cs}
            # transitive: a call to any function from which a member of the component is reachable also recurses
            rec_calls |= {bb for bb, c in b.calls() if name(c) in scope and name(c) not in cs and (cg.reachable([name(c)]) & cs)}
            # guard through a helper: `if !p.enter_nesting() { ..; return Err }`
            import guards as _g
            for bb, c in b.calls():
                if name(c) in helpers:
                    br = _g.bool_branch(b, bb)
                    if br and any(not (cfgutil.reachable(succ, e) & rec_calls) for e in br):
                        guarded.add(fid)
            for bi, blk in enumerate(b.blocks):
                for st in blk[1]:
                    if st[0] == "a" and st[2][0] == "bin" and st[2][1] in ("Gt", "Ge", "Lt", "Le"):
                        ops = st[2][2:4]
                        has_const = any(o[0] == "k" and o[1] == "int" for o in ops)
                        has_const = any(o[0] == "k" for o in ops)
                        if has_const and any(counter_field(b, o) for o in ops):
                            t = blk[2]
                            if t[0] == "sw":
                                for tb in [x for _, x in t[2]] + [t[3]]:
                                    if not (cfgutil.reachable(succ, tb) & rec_calls):
                                        guarded.add(fid)
        rest = cs - guarded
        adj = {n: [x for x in cg.callees(n) if x in rest] for n in rest}
        cyc = [c2 for c2 in cfgutil.sccs(list(rest), lambda n: adj.get(n, ())) if len(c2) > 1 or c2[0] in adj.get(c2[0], ())]
        chk.check(not cyc, "R02c", "depth-guard:" + rep,
                  "the recursive component around %s (%d functions) has a cycle without any depth guard: nesting depth is bounded "
                  "only by the stack, a few thousand nested constructs overflow it and crash the process" % (rep, len(comp)),
                  scope[sorted(comp)[0]].loc(), witness={"component": sorted(x.replace(P, "") for x in comp)[:40]})
    # R02d explicit panics
    entries = [P + "parser::lua_parser::LuaParser::parse", P + "text::line_index::LineIndex::parse"]
    skip = ("index", "unwrap", "expect", "str-slice", "slice-range", "vec-drain", "vec-insert", "vec-remove", "map-index", "index-other",
            "refcell", "split", "string-range", "string-insert", "string-remove", "string-truncate", "textrange-new", "rowan-offset", "rowan-range", "div", "slice-len")
    n, _, _ = panicsurface.audit(chk, F, "R02d", "C02", entries, lambda b: b.crate == "emmylua_parser" and "_rust_i18n" not in b.id, skip_kinds=skip)
    chk.floor("explicit panic sites", n, 6)
    from rules import nesting
    nesting.check_pairing(chk, F, "R02e", "C02")
    # R02f bounds / underflow sites reachable from the parser entry points
    from rules import c12c
    cg2 = callgraph.CallGraph(F)
    reach = {x for x in cg2.reachable(entries) if x in F.bodies and "_rust_i18n" not in x}
    # generic marker methods are called through `P: MarkerEventContainer`; include every body of the marker / parser modules
    reach |= {k for k in F.bodies if k.startswith((P + "parser::", "<" + P + "parser::"))}
    nb, _, _ = c12c.bounds_audit(chk, F, "R02f", "C02", "emmylua_parser", "the parser (functions reachable from LuaParser::parse / LineIndex::parse)",
                                 "the parser panics", only=reach)
    chk.floor("bounds-sensitive sites reachable from the parser entry points", nb, 40)
    ns, _, _ = c12c.uint_sub_audit(chk, F, "R02f", "C02", "emmylua_parser", "the parser", "the parser panics", only=reach)
    chk.floor("unsigned subtractions reachable from the parser entry points", ns, 8)
    chk.explanation = ("Progress summaries (must-consume) to a fixpoint, natural-loop cycle search avoiding progress blocks, SCCs of the "
                       "grammar call graph with left-recursion and depth-guard tests, audit of explicit panics.")
