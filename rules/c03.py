"""C03 (table-agreement clause): the hand-maintained language tables agree with the reference manuals.

R03a  feature set per standard language level, evaluated from MIR (LexerConfig construction: level -> features_*();
      features_*() = base set + add(Feature) calls), equals the reference table:
        5.1 {} ; 5.2 {goto} ; 5.3 5.2+{bitwise ops, //} ; 5.4 5.3+{attribs} ; 5.5 5.4+{global, named vararg}
      in particular no standard level contains a non-standard extension.
R03b  the words the lexer turns into keyword tokens (string constants compared in name_to_kind) are exactly Lua's 21
      reserved words plus `goto`, and the `goto` arm is gated on the Goto feature.
"""
from report import RuleBroken

P = "emmylua_parser::"
FS = P + "kind::lua_features::LuaFeaturesSet"
FEAT = P + "kind::lua_features::LuaFeatures"
REFERENCE = {
    "Lua51": set(),
    "Lua52": {"Goto"},
    "Lua53": {"Goto", "BitwiseOperation", "IntegerFloorDivision"},
    "Lua54": {"Goto", "BitwiseOperation", "IntegerFloorDivision", "LocalAttrib"},
    "Lua55": {"Goto", "BitwiseOperation", "IntegerFloorDivision", "LocalAttrib", "GlobalDeclaration", "NamedVararg"},
}
RESERVED = {"and", "break", "do", "else", "elseif", "end", "false", "for", "function", "goto", "if", "in", "local", "nil",
            "not", "or", "repeat", "return", "then", "true", "until", "while"}


def name(c):
    return c.get("r") or c.get("f") or ""


def features_of(F, fid, depth=0):
    b = F.bodies.get(fid)
    if b is None or depth > 8:
        raise RuleBroken("cannot evaluate %s" % fid)
    out = set()
    for bb, c in b.calls():
        n = name(c)
        if n.startswith(FS + "::features_"):
            out |= features_of(F, n, depth + 1)
        elif n == FS + "::add":
            # the feature operand: an aggregate of LuaFeatures assigned to the arg local
            a = c["a"][1]
            found = None
            if a[0] in ("c", "m"):
                for blk in b.blocks:
                    for st in blk[1]:
                        if st[0] == "a" and st[1] == [a[1][0]] and st[2][0] == "agg" and st[2][2] == FEAT:
                            found = st[2][3]
            if found is None:
                raise RuleBroken("non-constant feature added in %s" % fid)
            out.add(found)
        elif n == FS + "::default" or n.endswith("Default>::default"):
            pass
    return out


def run(chk, F, tier):
    chk.rule("R03a", "feature set per standard level (evaluated from MIR) equals the reference table")
    chk.rule("R03b", "keyword strings of the lexer == Lua's reserved words (+goto, gated on the Goto feature)")
    chk.assume("language equivalence with reference Lua (literal forms, escapes, statement grammar) needs a reference implementation as oracle and is not decided")
    # level -> features function: in the body that switches on LuaLanguageLevel and calls features_*
    cfg = None
    for b in F.bodies.values():
        if b.crate == "emmylua_parser" and "lexer_config" in b.id and sum(1 for _, c in b.calls() if name(c).startswith(FS + "::features_")) >= 6:
            cfg = b
    if cfg is None:
        raise RuleBroken("LexerConfig level->features mapping not found")
    lvl = F.adts.get(P + "kind::lua_language_level::LuaLanguageLevel")
    if lvl is None:
        raise RuleBroken("LuaLanguageLevel not found")
    variants = [v["name"] for v in lvl["variants"]]
    sw = None
    for blk in cfg.blocks:
        if blk[2][0] == "sw" and len(blk[2][2]) >= 6:
            sw = blk[2]
    if sw is None:
        raise RuleBroken("level switch not found")
    succ = cfg.succ_map()
    level_fn = {}
    arms = list(sw[2]) + [("other", sw[3])]
    for v, tb in arms:
        cur = tb
        for _ in range(6):
            t = cfg.blocks[cur][2]
            if t[0] == "call" and name(t[1]).startswith(FS + "::features_"):
                if v != "other":
                    level_fn[variants[v]] = name(t[1])
                break
            if t[0] in ("goto", "fe", "fu"):
                cur = t[1]
            else:
                break
    handled = set(level_fn)
    rest = [x for x in variants if x not in handled]
    if len(rest) == 1 and sw[3] is not None:
        cur = sw[3]
        for _ in range(6):
            t = cfg.blocks[cur][2]
            if t[0] == "call" and name(t[1]).startswith(FS + "::features_"):
                level_fn[rest[0]] = name(t[1])
                break
            if t[0] in ("goto", "fe", "fu"):
                cur = t[1]
            else:
                break
    chk.floor("language levels mapped", len(level_fn), 8)
    std = {"BitwiseOperation", "IntegerFloorDivision", "Goto", "LocalAttrib", "GlobalDeclaration", "NamedVararg"}
    for level, want in sorted(REFERENCE.items()):
        if level not in level_fn:
            chk.violation("R03a", level, "no feature set mapped for %s" % level, cfg.loc())
            continue
        got = features_of(F, level_fn[level])
        chk.check(got == want, "R03a", level,
                  "%s enables %s but the reference manual gives %s (missing %s, extra %s): valid programs of that version are "
                  "rejected or invalid ones accepted" % (level, sorted(got), sorted(want), sorted(want - got), sorted(got - want)),
                  F.bodies[level_fn[level]].loc(), witness={"got": sorted(got), "want": sorted(want)},
                  sample={"rule": "R03a", "level": level, "features": sorted(got), "verdict": "equals reference"})
    # R03b
    nk = None
    for b in F.bodies.values():
        if b.id.endswith("LuaLexer::name_to_kind"):
            nk = b
    if nk is None:
        raise RuleBroken("name_to_kind not found")
    import dataflow
    words = set(dataflow.str_consts(nk))
    chk.check(words == RESERVED, "R03b", "reserved-words",
              "the lexer's keyword table differs from Lua's reserved words: missing %s, extra %s" % (sorted(RESERVED - words), sorted(words - RESERVED)),
              nk.loc(), witness={"words": sorted(words)},
              sample={"rule": "R03b", "words": len(words), "verdict": "exactly the reserved words"})
    gated = False
    for bb, c in nk.calls():
        if name(c).endswith("::support"):
            for blk in nk.blocks:
                for st in blk[1]:
                    if st[0] == "a" and st[2][0] == "agg" and st[2][2] == FEAT and st[2][3] == "Goto":
                        gated = True
    chk.check(gated, "R03b", "goto-gated", "`goto` is no longer gated on the Goto feature (it is an ordinary name in Lua 5.1)", nk.loc())
    from rules import nesting
    nesting.check_pairing(chk, F, "R03c", "C03")
    # R03d: annotations are comments for Lua: their parse errors are never Lua syntax errors
    chk.rule("R03d", "no function of the doc-comment grammar builds a parse error of kind SyntaxError (only DocError): a malformed annotation in a valid "
                     "Lua file must not make has_syntax_errors() true")
    nerr = 0
    per_fn = {}
    for b in F.bodies.values():
        if b.crate != "emmylua_parser" or "::test" in b.id:
            continue
        if not (b.id.startswith("emmylua_parser::grammar::doc::") or b.id.startswith("emmylua_parser::parser::lua_doc_parser::")):
            continue
        for bb, c in b.calls():
            n = c.get("r") or c.get("f") or ""
            if n.endswith(("LuaParseError::syntax_error_from", "LuaParseError::doc_error_from", "LuaParseError::new")):
                nerr += 1
                per_fn[b.id] = per_fn.get(b.id, 0) + 1
                key = "doc-error-kind@%s#%d" % (b.id.replace("emmylua_parser::", ""), per_fn[b.id])
                bad = n.endswith("syntax_error_from")
                if n.endswith("LuaParseError::new"):
                    bad = "SyntaxError" in repr(c["a"][:1]) or any("SyntaxError" in repr(st) for blk in b.blocks for st in blk[1] if st[0] == "a" and st[2][0] == "agg")
                chk.check(not bad, "R03d", key,
                          "%s reports an annotation error as LuaParseErrorKind::SyntaxError: a program the reference Lua accepts (the annotation is a "
                          "comment) gets a syntax-error diagnostic, and tools that refuse trees with syntax errors (formatter) refuse the file"
                          % b.id.split("::")[-1], b.loc(c["l"]), sample={"rule": "R03d", "site": key, "verdict": "DocError"})
    chk.floor("error constructions in the doc grammar", nerr, 15)
    chk.explanation = "Evaluates the per-level feature sets and the keyword table from MIR and compares them with the reference tables encoded in the rule."
