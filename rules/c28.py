"""C28: lock order, re-acquisition and guards across awaits.

R28a  the relation held -> acquired over all lock objects (modes ignored: tokio's RwLock is fair, a queued writer
      blocks later readers, so read-after-read cycles deadlock too) is acyclic.
R28b  no lock is acquired while a guard of the same lock is held (any mode).
R28c  no std::sync guard is live across an await.
R28d  (informational) tokio guards live across awaits of calls that acquire nothing are listed in the evidence.
"""
import cfgutil
import locks
from report import RuleBroken


def run(chk, F, tier):
    chk.rule("R28a", "held->acquired relation over lock objects is acyclic (modes ignored, fair RwLock)")
    chk.rule("R28b", "no acquisition of a lock already held by the same task")
    chk.rule("R28c", "no std::sync guard live across an await")
    chk.assume("lock identity = guarded type; every lock object in emmylua_ls has a distinct guarded type except the two "
               "PendingTask debounce mutexes, which are merged (conservative)")
    chk.assume("tasks started with tokio::spawn do not inherit the spawner's held locks; liveness under starvation and "
               "deadlocks through channels/JoinHandles are decided only for the 'guard held while awaiting other tasks / the client' shape (R28e/R28f)")
    LG = locks.LockGraph(F, {"emmylua_ls", "emmylua_check", "emmylua_doc_cli"})
    nb = sum(1 for b in LG.bl.values() if b.guards)
    chk.floor("bodies holding guards", nb, 60)
    nacq = sum(len(b.acquires) for b in LG.bl.values())
    chk.floor("acquisition sites", nacq, 100)
    E = {}
    for e in LG.edges():
        E.setdefault((e[0], e[2]), []).append(e)
    chk.unit("distinct held->acquired lock pairs", len(E))
    nodes = sorted({a for a, _ in E} | {b for _, b in E})
    adj = {n: sorted({b for (a, b) in E if a == n and a != b}) for n in nodes}
    comps = cfgutil.sccs(nodes, lambda n: adj.get(n, []))
    cyc_nodes = set()
    for c in comps:
        if len(c) > 1:
            cyc_nodes |= set(c)
    # R28b
    for (a, b), es in sorted(E.items()):
        if a == b:
            for e in es:
                chk.violation("R28b", "%s@%s" % (a, e[5]),
                              "%s(%s) is acquired again (%s, %s) while the task already holds it: with a writer queued in "
                              "between, the task waits for itself" % (a, e[1], e[3], e[7]), F.bodies[e[5]].loc(e[6]),
                              witness={"held_mode": e[1], "acquired_mode": e[3], "via": e[7]})
    # R28a
    for (a, b), es in sorted(E.items()):
        if a == b:
            continue
        in_cycle = a in cyc_nodes and b in cyc_nodes and any(a in c and b in c for c in comps if len(c) > 1)
        # siblings cross-check: for a 2-cycle the direction used by fewer sites is the deviant one; the majority
        # direction defines the order (ties: both are reported)
        if in_cycle and (b, a) in E and len({x[5] for x in es}) > len({x[5] for x in E[(b, a)]}):
            chk.ok("R28a", "%s->%s" % (a, b), {"rule": "R28a", "held": a, "acquired": b, "sites": len(es),
                                                "verdict": "majority direction of a 2-cycle; the deviant sites are reported"})
            continue
        if in_cycle:
            # report the minority direction(s): every edge that closes a cycle, keyed by site
            for e in es:
                chk.violation("R28a", "%s->%s@%s" % (a, b, e[5]),
                              "lock order cycle: %s(%s) is held while %s(%s) is acquired (%s) but other tasks acquire them "
                              "in the opposite order; schedule: task A holds %s and waits for %s, task B holds %s and waits "
                              "for %s (a queued writer on either lock blocks readers)" % (a, e[1], b, e[3], e[7], a, b, b, a),
                              F.bodies[e[5]].loc(e[6]),
                              witness={"edge": [a, b], "site": e[5], "line": e[6], "via": e[7],
                                       "opposite_sites": [x[5] for x in E.get((b, a), [])][:8]})
        else:
            chk.ok("R28a", "%s->%s" % (a, b), {"rule": "R28a", "held": a, "acquired": b, "sites": len(es),
                                                "example": es[0][5], "verdict": "consistent with a global order"})
    # R28c
    ny = 0
    for bid, bl in LG.bl.items():
        for bb, line, held in bl.yields_held:
            ny += 1
            std = [h for h in held if h[2] == "std"]
            chk.check(not std, "R28c", "std-guard-across-await@%s" % bid,
                      "a std::sync guard (%s) is live across an await: it blocks the executor thread" % std,
                      bl.b.loc(line))
    chk.unit("await points with a guard held", ny)
    # ---- R28e / R28f: what is awaited while an analysis / workspace-manager guard is held --------------------------------------------
    import callgraph
    import dataflow
    chk.rule("R28e", "no guard of the analysis or workspace-manager lock is live across an await that waits for other tasks (JoinHandle, JoinSet, "
                     "join_all, channel recv): those tasks may need the same lock, and with a writer queued in between (fair RwLock) nobody proceeds")
    chk.rule("R28f", "no guard of the analysis or workspace-manager lock is live across a client round trip (a future that reaches "
                     "ClientProxy::send_request), unless audited as time-limited: the answer is delivered by the message loop, which itself awaits these locks")
    ROUND_TRIP_AUDITED = {
        ("emmylua_ls::handlers::initialized::init_analysis::{closure#0}", "StatusBar::create_progress_task"):
            "window/workDoneProgress/create is sent with time_cancel_token(5 s): the wait is bounded (a stall, not a hang)",
    }
    GUARDED = ("EmmyLuaAnalysis", "WorkspaceManager")
    WAITS_FOR_TASKS = ("JoinHandle<", "JoinSet<", "JoinAll<", "join_all", "TryJoinAll", "mpsc::bounded::Receiver", "mpsc::unbounded::UnboundedReceiver",
                       "oneshot::Receiver", "::recv::", "Receiver<T>::recv", "broadcast::Receiver", "Notified<", "Barrier")
    cg = callgraph.CallGraph(F)
    SEND_REQ = next((k for k in F.bodies if k.endswith("ClientProxy::send_request")), "emmylua_ls::context::client::ClientProxy::send_request")
    nyield = 0
    for b in F.bodies.values():
        if b.crate != "emmylua_ls" or "::test" in b.id or not b.get("coroutine"):
            continue
        BL = LG.bl.get(b.id) or locks.BodyLocks(b)
        if not BL.yields_held:
            continue
        succ = b.succ_map()
        idom = cfgutil.dominators(succ, 0)
        intos = [(bb, c) for bb, c in b.calls() if (c.get("r") or c.get("f") or "").endswith("IntoFuture>::into_future")]
        seen_keys = set()
        for bb, line, held in BL.yields_held:
            hl = sorted({h[0].split("::")[-1] for h in held if h[0].split("::")[-1] in GUARDED})
            if not hl:
                continue
            best = None
            for ib, c in intos:
                if cfgutil.dominates(idom, ib, bb) and (best is None or cfgutil.dominates(idom, best[0], ib)):
                    best = (ib, c)
            if best is None:
                continue
            c = best[1]
            fut = b.ty_str(c["ga"][0]) if c.get("ga") else ""
            src = ""
            l = dataflow.operand_local(c["a"][0]) if c["a"] else None
            for r in (dataflow.roots(b, l) if l is not None else ()):
                if r[0] == "call":
                    src = b.blocks[r[1]][2][1].get("r") or b.blocks[r[1]][2][1].get("f") or ""
            key = "%s@%s" % ("::".join(src.split("::")[-2:]) or fut[:40], b.id.replace("emmylua_ls::", ""))
            if key in seen_keys:
                continue
            seen_keys.add(key)
            nyield += 1
            waits = any(w in fut or w in src for w in WAITS_FOR_TASKS)
            chk.check(not waits, "R28e", "await-tasks:" + key,
                      "%s holds %s while awaiting %s, i.e. the completion of other tasks: if those tasks take the same lock and a writer queues between "
                      "them, the holder waits for a task that waits for the writer that waits for the holder" % (b.id.split("::")[-2] if b.id.endswith("}") else b.id.split("::")[-1], hl, (src or fut)[:90]),
                      b.loc(line), sample={"rule": "R28e", "site": key, "verdict": "does not wait for other tasks"})
            reach = cg.reachable([src, src + "::{closure#0}"]) if src else set()
            rt = SEND_REQ in reach or (SEND_REQ + "::{closure#0}") in reach
            aud = ROUND_TRIP_AUDITED.get((b.id, "::".join(src.split("::")[-2:])))
            chk.check(not rt or aud is not None, "R28f", "await-client:" + key,
                      "%s holds %s while awaiting %s, which sends a request to the client and waits for its answer: the message loop that must deliver the "
                      "answer also awaits these locks for didOpen/didChange/didClose, so one such notification in between stops both"
                      % (b.id.split("::")[-2] if b.id.endswith("}") else b.id.split("::")[-1], hl, "::".join(src.split("::")[-2:])), b.loc(line),
                      sample={"rule": "R28f", "site": key, "verdict": aud or "no client round trip under the guard"})
    chk.floor("awaits under an analysis / workspace-manager guard", nyield, 10)
    chk.explanation = ("Forward may-held analysis of guard locals on every coroutine/function body, transitive acquires() "
                       "summaries (not through tokio::spawn), SCCs of the held->acquired relation.")
