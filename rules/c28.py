"""C28: lock order, re-acquisition and guards across awaits.

R28a  the relation held -> acquired over all lock objects (modes ignored: tokio's RwLock is fair, a queued writer
      blocks later readers, so read-after-read cycles deadlock too) is acyclic.
R28b  no lock is acquired while a guard of the same lock is held (any mode).
R28c  no std::sync guard is live across an await.
R28d  (informational) tokio guards live across awaits of calls that acquire nothing are listed in the evidence.
"""
import cfgutil
import locks
from report import RuleBroken


def run(chk, F, tier):
    chk.rule("R28a", "held->acquired relation over lock objects is acyclic (modes ignored, fair RwLock)")
    chk.rule("R28b", "no acquisition of a lock already held by the same task")
    chk.rule("R28c", "no std::sync guard live across an await")
    chk.assume("lock identity = guarded type; every lock object in emmylua_ls has a distinct guarded type except the two "
               "PendingTask debounce mutexes, which are merged (conservative)")
    chk.assume("tasks started with tokio::spawn do not inherit the spawner's held locks; liveness under starvation and "
               "deadlocks through channels/JoinHandles are not decided")
    LG = locks.LockGraph(F, {"emmylua_ls", "emmylua_check", "emmylua_doc_cli"})
    nb = sum(1 for b in LG.bl.values() if b.guards)
    chk.floor("bodies holding guards", nb, 60)
    nacq = sum(len(b.acquires) for b in LG.bl.values())
    chk.floor("acquisition sites", nacq, 100)
    E = {}
    for e in LG.edges():
        E.setdefault((e[0], e[2]), []).append(e)
    chk.unit("distinct held->acquired lock pairs", len(E))
    nodes = sorted({a for a, _ in E} | {b for _, b in E})
    adj = {n: sorted({b for (a, b) in E if a == n and a != b}) for n in nodes}
    comps = cfgutil.sccs(nodes, lambda n: adj.get(n, []))
    cyc_nodes = set()
    for c in comps:
        if len(c) > 1:
            cyc_nodes |= set(c)
    # R28b
    for (a, b), es in sorted(E.items()):
        if a == b:
            for e in es:
                chk.violation("R28b", "%s@%s" % (a, e[5]),
                              "%s(%s) is acquired again (%s, %s) while the task already holds it: with a writer queued in "
                              "between, the task waits for itself" % (a, e[1], e[3], e[7]), F.bodies[e[5]].loc(e[6]),
                              witness={"held_mode": e[1], "acquired_mode": e[3], "via": e[7]})
    # R28a
    for (a, b), es in sorted(E.items()):
        if a == b:
            continue
        in_cycle = a in cyc_nodes and b in cyc_nodes and any(a in c and b in c for c in comps if len(c) > 1)
        # siblings cross-check: for a 2-cycle the direction used by fewer sites is the deviant one; the majority
        # direction defines the order (ties: both are reported)
        if in_cycle and (b, a) in E and len({x[5] for x in es}) > len({x[5] for x in E[(b, a)]}):
            chk.ok("R28a", "%s->%s" % (a, b), {"rule": "R28a", "held": a, "acquired": b, "sites": len(es),
                                                "verdict": "majority direction of a 2-cycle; the deviant sites are reported"})
            continue
        if in_cycle:
            # report the minority direction(s): every edge that closes a cycle, keyed by site
            for e in es:
                chk.violation("R28a", "%s->%s@%s" % (a, b, e[5]),
                              "lock order cycle: %s(%s) is held while %s(%s) is acquired (%s) but other tasks acquire them "
                              "in the opposite order; schedule: task A holds %s and waits for %s, task B holds %s and waits "
                              "for %s (a queued writer on either lock blocks readers)" % (a, e[1], b, e[3], e[7], a, b, b, a),
                              F.bodies[e[5]].loc(e[6]),
                              witness={"edge": [a, b], "site": e[5], "line": e[6], "via": e[7],
                                       "opposite_sites": [x[5] for x in E.get((b, a), [])][:8]})
        else:
            chk.ok("R28a", "%s->%s" % (a, b), {"rule": "R28a", "held": a, "acquired": b, "sites": len(es),
                                                "example": es[0][5], "verdict": "consistent with a global order"})
    # R28c
    ny = 0
    for bid, bl in LG.bl.items():
        for bb, line, held in bl.yields_held:
            ny += 1
            std = [h for h in held if h[2] == "std"]
            chk.check(not std, "R28c", "std-guard-across-await@%s" % bid,
                      "a std::sync guard (%s) is live across an await: it blocks the executor thread" % std,
                      bl.b.loc(line))
    chk.unit("await points with a guard held", ny)
    chk.explanation = ("Forward may-held analysis of guard locals on every coroutine/function body, transitive acquires() "
                       "summaries (not through tokio::spawn), SCCs of the held->acquired relation.")
