"""C22 (structural clauses of position conversion; the round-trip arithmetic itself is not decided).

R22a  LineIndex::get_offset and get_col_offset_at_line return None for a line that does not exist: the lookup of the line's
      start (`get_line_offset(line)?`) precedes every other use, and get_line_offset indexes `line_offsets` under a bounds test.
R22b  a column past the end of the line is clamped to that line: whatever bounds the column -- the `min` in the ASCII branch,
      the `chars()` walk in the other -- is computed from the line's own content, never from the whole text
      (`source_text.len()`) or an open-ended tail of it (`source_text[start..]`).
R22c  every index / slice in LineIndex is in bounds by a derived fact or an audited entry (no position can panic the conversion).
"""
import bounds
import cfgutil
import dataflow
import panics
import panicsurface
from report import RuleBroken
from rules import c12c

LI = "emmylua_parser::text::line_index::LineIndex"
FUNS = ("get_offset", "get_col_offset_at_line")


def name(c):
    return c.get("r") or c.get("f") or ""


def _whole_text(b, op, text_param, depth=0):
    """does the operand denote the whole source text or an open-ended tail of it?"""
    l = dataflow.operand_local(op)
    if l is None or depth > 6:
        return None
    for r in dataflow.roots(b, l):
        if r == ("arg", text_param):
            return "the whole `source_text`"
        if r[0] == "call":
            c = b.blocks[r[1]][2][1]
            n = name(c)
            if n.endswith("::index") and len(c["a"]) == 2:
                ra = c12c._range_agg(b, c["a"][1])
                if ra and ra[0] == "RangeFrom" and _whole_text(b, c["a"][0], text_param, depth + 1):
                    return "an open-ended tail `source_text[start..]`"
                if ra and ra[0] == "RangeFull":
                    w = _whole_text(b, c["a"][0], text_param, depth + 1)
                    if w:
                        return w
            if n.endswith(("::as_str", "Deref>::deref", "::as_ref")) and c["a"]:
                w = _whole_text(b, c["a"][0], text_param, depth + 1)
                if w:
                    return w
    return None


def _sources(b, op):
    """names of the calls (or 'arith:..') a value is computed from; casts, tuple payloads and `?` are looked through"""
    out, seen = set(), set()
    l = dataflow.operand_local(op)
    if l is None:
        return {"const"}
    todo = [l]
    while todo:
        x = todo.pop()
        if x in seen:
            continue
        seen.add(x)
        for r in dataflow.roots(b, x):
            if r[0] == "call":
                c = b.blocks[r[1]][2][1]
                n = name(c)
                if n.endswith(("Try>::branch", "Into<U>>::into", "From<T>>::from")) and c["a"]:
                    la = dataflow.operand_local(c["a"][0])
                    if la is not None:
                        todo.append(la)
                    continue
                out.add(n.split("::")[-1])
            elif r[0] == "place":
                todo.append(r[1])
            elif r[0] == "other":
                rv = b.blocks[r[1]][1][r[2]][2]
                if rv[0] == "cast":
                    for y in rv[1:]:
                        if isinstance(y, list) and y and y[0] in ("c", "m"):
                            todo.append(y[1][0])
                else:
                    out.add("arith:" + str(rv[0]) + (":" + str(rv[1]) if rv[0] in ("bin", "un") else ""))
            elif r[0] == "const":
                out.add("const")
            elif r[0] == "arg":
                out.add("arg")
            else:
                out.add(str(r[0]))
    return out


def run(chk, F, tier):
    chk.rule("R22a", "a position on a missing line converts to nothing: the line-start lookup guards everything else")
    chk.rule("R22b", "the column is clamped by the line's own content, not by the whole text")
    chk.rule("R22c", "every index / slice of LineIndex is in bounds by a derived fact or an audited entry")
    chk.assume("decides guards and the provenance of the clamp bound; that offset -> position -> offset is the identity is integer arithmetic and not decided")
    nfun = 0
    for fn in FUNS:
        b = F.bodies.get(LI + "::" + fn)
        if b is None:
            raise RuleBroken("%s not found" % fn)
        nfun += 1
        text_param = next((i for i in range(1, b.argc + 1) if b.local_ty_str(i) == "&str"), None)
        if text_param is None:
            raise RuleBroken("%s has no &str parameter" % fn)
        succ = b.succ_map()
        idom = cfgutil.dominators(succ, 0)
        # R22a
        glo = [bb for bb, c in b.calls() if name(c).endswith("LineIndex::get_line_offset")]
        others = [bb for bb, c in b.calls() if not name(c).endswith(("LineIndex::get_line_offset", "Try>::branch", "FromResidual<core::option::Option<core::convert::Infallible>>>::from_residual"))
                  and "from_residual" not in name(c)]
        ok = bool(glo) and all(any(g == o or cfgutil.dominates(idom, g, o) for g in glo) for o in others)
        chk.check(ok, "R22a", "%s:line-lookup-first" % fn,
                  "%s does work before (or without) `get_line_offset(line)?`: a position on a line that does not exist is no longer turned into None first" % fn,
                  b.loc(), sample={"rule": "R22a", "fn": fn, "verdict": "get_line_offset(line)? dominates every other call"})
        # R22b
        nb = 0
        for bb, c in b.calls():
            n = name(c)
            if n.endswith("::min") and len(c["a"]) == 2:
                for a in c["a"]:
                    for cc in [b.blocks[r[1]][2][1] for r in (dataflow.roots(b, dataflow.operand_local(a)) if dataflow.operand_local(a) is not None else ()) if r[0] == "call"]:
                        if name(cc).endswith("::len") and cc["a"]:
                            nb += 1
                            w = _whole_text(b, cc["a"][0], text_param)
                            chk.check(w is None, "R22b", "%s:min-bound#%d" % (fn, nb),
                                      "%s clamps the column with the length of %s: a character past the end of the line lands on later lines or past the "
                                      "end of the document instead of at the end of its line" % (fn, w), b.loc(c["l"]),
                                      sample={"rule": "R22b", "fn": fn, "verdict": "bound is the line's content length"})
            if n.endswith("::chars") and c["a"]:
                nb += 1
                w = _whole_text(b, c["a"][0], text_param)
                chk.check(w is None, "R22b", "%s:chars-walk#%d" % (fn, nb),
                          "%s walks the characters of %s to consume the column: the walk runs over the line terminator into the following lines"
                          % (fn, w), b.loc(c["l"]), sample={"rule": "R22b", "fn": fn, "verdict": "walk is limited to the line's content"})
        chk.check(nb >= 2, "R22b", "%s:bounds-found" % fn, "%s has no recognisable column bound (min / chars walk): the rule's anchors are gone" % fn, b.loc())
    # get_line_offset guards its index
    g = F.bodies.get(LI + "::get_line_offset")
    if g is None:
        raise RuleBroken("get_line_offset not found")
    # R22c over all LineIndex bodies
    table = panicsurface.load_table()
    n = 0
    for bid in sorted(F.bodies):
        b = F.bodies[bid]
        if not bid.startswith("emmylua_parser::text::line_index::") or "::test" in bid:
            continue
        B = bounds.Bounds(F, b)
        ordinal = {}
        for bb, kind, line, detail in panics.sites(b):
            if kind not in c12c.KINDS:
                continue
            k = (kind, detail.split("::")[-1])
            ordinal[k] = ordinal.get(k, 0) + 1
            key = "C22|%s|%s:%s#%d" % (bid, kind, detail.split("::")[-1], ordinal[k])
            n += 1
            why = c12c.recognise(F, b, B, bb, kind)
            if why:
                chk.ok("R22c", key, {"rule": "R22c", "site": b.loc(line), "kind": kind, "verdict": "bounds fact", "reason": why})
            elif key in table:
                chk.ok("R22c", key, {"rule": "R22c", "site": b.loc(line), "kind": kind, "verdict": "audited", "reason": table[key]})
            else:
                chk.violation("R22c", key, "no bounds fact and no audited entry for this %s site in LineIndex: some position may panic the conversion" % kind,
                              b.loc(line), witness={"kind": kind, "callee": detail})
    # R22d: LSP positions are built from get_line_col only
    chk.rule("R22d", "LuaDocument::to_lsp_range / to_lsp_position take every line and character from get_line_col (no shortcut that adds byte lengths "
                     "to character columns), so offset -> position agrees between ranges and single positions")
    DOC = "emmylua_code_analysis::vfs::document::LuaDocument"
    npos = 0
    for fn in ("to_lsp_range", "to_lsp_position"):
        b = F.bodies.get(DOC + "::" + fn)
        if b is None:
            raise RuleBroken("LuaDocument::%s not found" % fn)
        for blk in b.blocks:
            for st in blk[1]:
                if st[0] == "a" and st[2][0] == "agg" and st[2][1] == "adt" and (st[2][2] or "").endswith("::Position") and len(st[2][4]) == 2:
                    for op in st[2][4]:
                        npos += 1
                        src = _sources(b, op)
                        chk.check(src == {"get_line_col"}, "R22d", "%s:component#%d" % (fn, npos),
                                  "%s computes a line/character from %s instead of get_line_col alone: on a line with multi-byte characters the result "
                                  "differs from to_lsp_position of the same offset and does not convert back to the original range" % (fn, sorted(src)),
                                  b.loc(st[3] if len(st) > 3 else None), sample={"rule": "R22d", "fn": fn, "verdict": "from get_line_col"})
    chk.floor("Position components built by LuaDocument", npos, 6)
    chk.floor("index / slice sites in LineIndex", n, 3)
    chk.floor("conversion functions", nfun, 2)
    chk.explanation = "Dominance of the line lookup, provenance of the clamp bound (whole text vs line content), bounds facts for every index of LineIndex."
