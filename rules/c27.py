"""C27: all notifications that mutate the per-document text state are dispatched in one ordering domain.

R27  H = notification handlers from which a write to WorkspaceManager.open_file_texts is reachable (found by
     write-set + call graph, not by name).  In the dispatch coroutine every handler in H must be awaited inline on
     the message loop; a handler of H that is only reachable through a closure/future handed to tokio::spawn runs
     in no defined order relative to the others.
"""
import callgraph
import effects
from report import RuleBroken

LS = "emmylua_ls"
DISPATCH = LS + "::handlers::notification_handler::on_notification_handler::{closure#0}"
WM = LS + "::context::workspace_manager::WorkspaceManager"


def name(c):
    return c.get("r") or c.get("f") or ""


def run(chk, F, tier):
    chk.rule("R27", "handlers that can write WorkspaceManager.open_file_texts are all awaited inline by the notification dispatcher")
    chk.assume("inline awaits on the single message loop execute in message order; tokio::spawn gives no order")
    chk.assume("interleavings inside one handler are not decided here (C28/C29)")
    d = F.bodies.get(DISPATCH)
    if d is None:
        raise RuleBroken("notification dispatch coroutine not found")
    cg = callgraph.CallGraph(F)
    ws = effects.WriteSets(F)
    # writers of open_file_texts
    writers = set()
    for b in F.bodies.values():
        if b.kind != "fn" or b.get("impl_self") is None or b.ty(b.get("impl_self"))[3] != WM:
            continue
        if b.argc >= 1 and b.local_ty_str(1).startswith("&mut "):
            if "open_file_texts" in (ws.writes(b.id, 1) or ()):
                writers.add(b.id)
    chk.floor("writers of open_file_texts", len(writers), 2)
    # handler functions: workspace async fns called (directly or in nested closures) from the dispatcher whose
    # first parameter is a ServerContextSnapshot
    inline = {}
    for bb, c in d.calls():
        n = name(c)
        if n.startswith(LS + "::handlers::") and n in F.bodies:
            inline[n] = c["l"]
    spawned = {}
    nested = [x for x in F.bodies if x.startswith(DISPATCH + "::{closure")]
    spawn_args = set()
    for bb, c in d.calls():
        if name(c) in ("tokio::task::spawn::spawn", "tokio::spawn"):
            for gi in c.get("ga", []):
                t = d.ty(gi)
                if t[2] in ("coroutine", "closure"):
                    spawn_args.add(t[3])
    for x in nested:
        root = x
        # the nested body belongs to a spawned future iff its outermost closure under DISPATCH was handed to spawn
        top = DISPATCH + "::" + x[len(DISPATCH) + 2:].split("::")[0]
        for bb, c in F.bodies[x].calls():
            n = name(c)
            if n.startswith(LS + "::handlers::") and n in F.bodies:
                if top in spawn_args:
                    spawned[n] = c["l"]
                else:
                    inline.setdefault(n, c["l"])
    norm = lambda n: n[:-len("::{closure#0}")] if n.endswith("::{closure#0}") else n
    inline = {norm(k): v for k, v in inline.items()}
    spawned = {norm(k): v for k, v in spawned.items()}
    chk.floor("notification handlers seen", len(set(inline) | set(spawned)), 8)
    chk.note("inline=%s spawned=%s" % (sorted(x.split("::")[-1] for x in inline), sorted(x.split("::")[-1] for x in spawned)))
    H = []
    for h in sorted(set(inline) | set(spawned)):
        reach = cg.reachable([h, h + "::{closure#0}"])
        if reach & writers:
            H.append(h)
    chk.floor("document-text handlers", len(H), 3)
    for h in H:
        chk.check(h in inline and h not in spawned, "R27", "inline:%s" % h.split("::")[-1],
                  "%s mutates the per-document text state but is dispatched through tokio::spawn while other "
                  "document-text notifications run inline: a later didChange can be applied before an earlier "
                  "didOpen/didClose" % h.split("::")[-1], d.loc(spawned.get(h)),
                  witness={"handler": h, "writers_reached": sorted(cg.reachable([h, h + '::{closure#0}']) & writers)},
                  sample={"rule": "R27", "handler": h.split("::")[-1], "dispatch": "inline", "verdict": "ordered"})
    chk.explanation = ("Write-set analysis finds the mutators of open_file_texts, the call graph finds the handlers that reach "
                       "them, the dispatch coroutine's MIR tells inline await from tokio::spawn.")

    # R27b: the text recorded for an open document is also the text handed to the analysis
    import cfgutil
    import dataflow
    chk.rule("R27b", "in didOpen/didChange every path from recording the text (sync_open_file) to the end of the handler reaches "
                     "update_file_by_uri, except through the workspace filter (a branch on get_file_id(..).is_some() / is_workspace_file(..))")
    SYNC = WM + "::sync_open_file"
    UPDATE = "emmylua_code_analysis::EmmyLuaAnalysis::update_file_by_uri"
    FILTER_CALLS = ("WorkspaceManager::is_workspace_file", "Option::<T>::is_some")
    nh = 0
    for b in F.bodies.values():
        if b.crate != LS or "::test" in b.id or not b.id.startswith(LS + "::handlers::text_document::text_document_handler::"):
            continue
        syncs = [bb for bb, c in b.calls() if name(c) == SYNC]
        if not syncs:
            continue
        nh += 1
        succ = b.succ_map()
        upd = {bb for bb, c in b.calls() if name(c) == UPDATE}
        key = "update-after-sync@%s" % b.id.split("::")[-2 if b.id.endswith("{closure#0}") else -1]

        def filter_false_edge(bi):
            """for a switch on (a negation of) the workspace-filter flag: the successor taken when the flag is false"""
            t = b.blocks[bi][2]
            if t[0] != "sw" or t[1][0] not in ("c", "m") or len(t[1][1]) != 1:
                return None
            l = t[1][1][0]
            neg = False
            for _ in range(4):
                ds = dataflow.def_sites(b).get(l, [])
                if len(ds) == 1 and ds[0][0] == "stmt" and ds[0][3][0] == "un" and ds[0][3][1] == "Not" and \
                        ds[0][3][2][0] in ("c", "m") and len(ds[0][3][2][1]) == 1:
                    neg = not neg
                    l = ds[0][3][2][1][0]
                    continue
                if len(ds) == 1 and ds[0][0] == "stmt" and ds[0][3][0] == "use" and ds[0][3][1][0] in ("c", "m") and len(ds[0][3][1][1]) == 1:
                    l = ds[0][3][1][1][0]
                    continue
                break
            if "bool" != b.local_ty_str(l):
                return None
            rs = dataflow.roots(b, l)
            if not rs:
                return None
            for r in rs:
                if r[0] == "const":
                    continue
                if r[0] == "call" and name(b.blocks[r[1]][2][1]).endswith(FILTER_CALLS):
                    continue
                return None
            flag_false_value = 1 if neg else 0     # value of the switched operand when the flag is false
            tgt = [tb for v, tb in t[2] if v == flag_false_value]
            return tgt[0] if tgt else t[3]

        cut = {}
        for bi in range(len(b.blocks)):
            e = filter_false_edge(bi)
            if e is not None:
                cut[bi] = e
        sub = [[y for y in v if not (k in cut and y == cut[k])] for k, v in enumerate(succ)]
        wit = None
        for s0 in syncs:
            p = cfgutil.paths_avoiding(sub, s0, set(b.returns()), upd)
            if p is not None:
                wit = p
        chk.check(wit is None and bool(upd), "R27b", key,
                  "the handler records the document text (sync_open_file) and can then finish without update_file_by_uri on a path that "
                  "is not the workspace filter: the open document is analysed with an older text (or not at all) although the editor sent a newer one",
                  b.loc(), witness={"path_blocks": wit, "lines": sorted({b.blocks[x][2][1]["l"] for x in (wit or []) if b.blocks[x][2][0] == "call"})[:12],
                                    "filter_branches": sorted(cut)},
                  sample={"rule": "R27b", "handler": key, "filter_branches": len(cut), "verdict": "every non-filtered path updates the analysis"})
    chk.floor("handlers recording document text", nh, 2)

    # R27c: every text the editor sends for an open document is recorded, whether or not the file is analysed right now
    chk.rule("R27c", "didOpen/didChange record the text (sync_open_file) on every path except a malformed notification (`?` exits): the table of "
                     "open texts is what a later reload applies, also for files that only become workspace files then")
    for b in F.bodies.values():
        if b.crate != LS or "::test" in b.id or not b.id.startswith(LS + "::handlers::text_document::text_document_handler::"):
            continue
        if not (b.id.endswith("on_did_open_text_document::{closure#0}") or b.id.endswith("on_did_change_text_document::{closure#0}")):
            continue
        succ = b.succ_map()
        syncs = {bb for bb, c in b.calls() if name(c) == SYNC}
        resid = {bb for bb, c in b.calls() if "FromResidual" in name(c)}
        sub = [[y for y in v if y not in resid] if k not in resid else [] for k, v in enumerate(succ)]
        p = cfgutil.paths_avoiding(sub, 0, set(b.returns()), syncs)
        key = "record-always@%s" % b.id.split("::")[-2]
        chk.check(bool(syncs) and p is None, "R27c", key,
                  "the handler can return without sync_open_file on a path that is not a `?` exit (for instance the workspace filter now comes first): the "
                  "newest text of an open document is not recorded, and a reload that makes the file part of the workspace analyses the text it had before",
                  b.loc(), witness={"path_blocks": p, "lines": sorted({b.blocks[x][2][1]["l"] for x in (p or []) if b.blocks[x][2][0] == "call"})[:10]},
                  sample={"rule": "R27c", "handler": key, "verdict": "recorded on every path"})
