"""C27: all notifications that mutate the per-document text state are dispatched in one ordering domain.

R27  H = notification handlers from which a write to WorkspaceManager.open_file_texts is reachable (found by
     write-set + call graph, not by name).  In the dispatch coroutine every handler in H must be awaited inline on
     the message loop; a handler of H that is only reachable through a closure/future handed to tokio::spawn runs
     in no defined order relative to the others.
"""
import callgraph
import effects
from report import RuleBroken

LS = "emmylua_ls"
DISPATCH = LS + "::handlers::notification_handler::on_notification_handler::{closure#0}"
WM = LS + "::context::workspace_manager::WorkspaceManager"


def name(c):
    return c.get("r") or c.get("f") or ""


def run(chk, F, tier):
    chk.rule("R27", "handlers that can write WorkspaceManager.open_file_texts are all awaited inline by the notification dispatcher")
    chk.assume("inline awaits on the single message loop execute in message order; tokio::spawn gives no order")
    chk.assume("interleavings inside one handler are not decided here (C28/C29)")
    d = F.bodies.get(DISPATCH)
    if d is None:
        raise RuleBroken("notification dispatch coroutine not found")
    cg = callgraph.CallGraph(F)
    ws = effects.WriteSets(F)
    # writers of open_file_texts
    writers = set()
    for b in F.bodies.values():
        if b.kind != "fn" or b.get("impl_self") is None or b.ty(b.get("impl_self"))[3] != WM:
            continue
        if b.argc >= 1 and b.local_ty_str(1).startswith("&mut "):
            if "open_file_texts" in (ws.writes(b.id, 1) or ()):
                writers.add(b.id)
    chk.floor("writers of open_file_texts", len(writers), 2)
    # handler functions: workspace async fns called (directly or in nested closures) from the dispatcher whose
    # first parameter is a ServerContextSnapshot
    inline = {}
    for bb, c in d.calls():
        n = name(c)
        if n.startswith(LS + "::handlers::") and n in F.bodies:
            inline[n] = c["l"]
    spawned = {}
    nested = [x for x in F.bodies if x.startswith(DISPATCH + "::{closure")]
    spawn_args = set()
    for bb, c in d.calls():
        if name(c) in ("tokio::task::spawn::spawn", "tokio::spawn"):
            for gi in c.get("ga", []):
                t = d.ty(gi)
                if t[2] in ("coroutine", "closure"):
                    spawn_args.add(t[3])
    for x in nested:
        root = x
        # the nested body belongs to a spawned future iff its outermost closure under DISPATCH was handed to spawn
        top = DISPATCH + "::" + x[len(DISPATCH) + 2:].split("::")[0]
        for bb, c in F.bodies[x].calls():
            n = name(c)
            if n.startswith(LS + "::handlers::") and n in F.bodies:
                if top in spawn_args:
                    spawned[n] = c["l"]
                else:
                    inline.setdefault(n, c["l"])
    norm = lambda n: n[:-len("::{closure#0}")] if n.endswith("::{closure#0}") else n
    inline = {norm(k): v for k, v in inline.items()}
    spawned = {norm(k): v for k, v in spawned.items()}
    chk.floor("notification handlers seen", len(set(inline) | set(spawned)), 8)
    chk.note("inline=%s spawned=%s" % (sorted(x.split("::")[-1] for x in inline), sorted(x.split("::")[-1] for x in spawned)))
    H = []
    for h in sorted(set(inline) | set(spawned)):
        reach = cg.reachable([h, h + "::{closure#0}"])
        if reach & writers:
            H.append(h)
    chk.floor("document-text handlers", len(H), 3)
    for h in H:
        chk.check(h in inline and h not in spawned, "R27", "inline:%s" % h.split("::")[-1],
                  "%s mutates the per-document text state but is dispatched through tokio::spawn while other "
                  "document-text notifications run inline: a later didChange can be applied before an earlier "
                  "didOpen/didClose" % h.split("::")[-1], d.loc(spawned.get(h)),
                  witness={"handler": h, "writers_reached": sorted(cg.reachable([h, h + '::{closure#0}']) & writers)},
                  sample={"rule": "R27", "handler": h.split("::")[-1], "dispatch": "inline", "verdict": "ordered"})
    chk.explanation = ("Write-set analysis finds the mutators of open_file_texts, the call graph finds the handlers that reach "
                       "them, the dispatch coroutine's MIR tells inline await from tokio::spawn.")
