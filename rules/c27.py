"""C27: all notifications that mutate the per-document text state are dispatched in one ordering domain.

R27  H = notification handlers from which a write to WorkspaceManager.open_file_texts is reachable (found by
     write-set + call graph, not by name).  In the dispatch coroutine every handler in H must be awaited inline on
     the message loop; a handler of H that is only reachable through a closure/future handed to tokio::spawn runs
     in no defined order relative to the others.
"""
import callgraph
import effects
from report import RuleBroken

LS = "emmylua_ls"
DISPATCH = LS + "::handlers::notification_handler::on_notification_handler::{closure#0}"
WM = LS + "::context::workspace_manager::WorkspaceManager"


def name(c):
    return c.get("r") or c.get("f") or ""


def run(chk, F, tier):
    chk.rule("R27", "handlers that can write WorkspaceManager.open_file_texts are all awaited inline by the notification dispatcher")
    chk.assume("inline awaits on the single message loop execute in message order; tokio::spawn gives no order")
    chk.assume("interleavings inside one handler are not decided here (C28/C29)")
    d = F.bodies.get(DISPATCH)
    if d is None:
        raise RuleBroken("notification dispatch coroutine not found")
    cg = callgraph.CallGraph(F)
    ws = effects.WriteSets(F)
    # writers of open_file_texts
    writers = set()
    for b in F.bodies.values():
        if b.kind != "fn" or b.get("impl_self") is None or b.ty(b.get("impl_self"))[3] != WM:
            continue
        if b.argc >= 1 and b.local_ty_str(1).startswith("&mut "):
            if "open_file_texts" in (ws.writes(b.id, 1) or ()):
                writers.add(b.id)
    chk.floor("writers of open_file_texts", len(writers), 2)
    # handler functions: workspace async fns called (directly or in nested closures) from the dispatcher whose
    # first parameter is a ServerContextSnapshot
    inline = {}
    for bb, c in d.calls():
        n = name(c)
        if n.startswith(LS + "::handlers::") and n in F.bodies:
            inline[n] = c["l"]
    spawned = {}
    nested = [x for x in F.bodies if x.startswith(DISPATCH + "::{closure")]
    spawn_args = set()
    for bb, c in d.calls():
        if name(c) in ("tokio::task::spawn::spawn", "tokio::spawn"):
            for gi in c.get("ga", []):
                t = d.ty(gi)
                if t[2] in ("coroutine", "closure"):
                    spawn_args.add(t[3])
    for x in nested:
        root = x
        # the nested body belongs to a spawned future iff its outermost closure under DISPATCH was handed to spawn
        top = DISPATCH + "::" + x[len(DISPATCH) + 2:].split("::")[0]
        for bb, c in F.bodies[x].calls():
            n = name(c)
            if n.startswith(LS + "::handlers::") and n in F.bodies:
                if top in spawn_args:
                    spawned[n] = c["l"]
                else:
                    inline.setdefault(n, c["l"])
    norm = lambda n: n[:-len("::{closure#0}")] if n.endswith("::{closure#0}") else n
    inline = {norm(k): v for k, v in inline.items()}
    spawned = {norm(k): v for k, v in spawned.items()}
    chk.floor("notification handlers seen", len(set(inline) | set(spawned)), 8)
    chk.note("inline=%s spawned=%s" % (sorted(x.split("::")[-1] for x in inline), sorted(x.split("::")[-1] for x in spawned)))
    H = []
    for h in sorted(set(inline) | set(spawned)):
        reach = cg.reachable([h, h + "::{closure#0}"])
        if reach & writers:
            H.append(h)
    chk.floor("document-text handlers", len(H), 3)
    for h in H:
        chk.check(h in inline and h not in spawned, "R27", "inline:%s" % h.split("::")[-1],
                  "%s mutates the per-document text state but is dispatched through tokio::spawn while other "
                  "document-text notifications run inline: a later didChange can be applied before an earlier "
                  "didOpen/didClose" % h.split("::")[-1], d.loc(spawned.get(h)),
                  witness={"handler": h, "writers_reached": sorted(cg.reachable([h, h + '::{closure#0}']) & writers)},
                  sample={"rule": "R27", "handler": h.split("::")[-1], "dispatch": "inline", "verdict": "ordered"})
    # R27d: a document-text handler applies its analysis mutation inline: nothing it hands to tokio::spawn takes the analysis write lock
    chk.rule("R27d", "no future spawned from a document-text handler (or from emmylua_ls code it calls) takes the write lock of the analysis: "
                     "the handler's effect on the analysis is applied before the next notification is dispatched")
    AW = "emmylua_code_analysis::EmmyLuaAnalysis"

    def takes_analysis_write(bid):
        b2 = F.bodies.get(bid)
        if b2 is None:
            return None
        for bb, c in b2.calls():
            n = name(c)
            if "RwLock" in n and n.endswith("::write") and any(len(b2.ty(g)) > 3 and b2.ty(g)[3] == AW for g in c.get("ga", [])):
                return c["l"]
            if n.endswith(("RwLock::<T>::blocking_write", "RwLock::<T>::try_write", "RwLock::<T>::write_owned")) and \
                    any(len(b2.ty(g)) > 3 and b2.ty(g)[3] == AW for g in c.get("ga", [])):
                return c["l"]
        return None
    nspawn = 0
    for h in H:
        reach = {x for x in cg.reachable([h, h + "::{closure#0}"]) if x in F.bodies and F.bodies[x].crate == LS}
        for x in sorted(reach):
            bx = F.bodies[x]
            for bb, c in bx.calls():
                if name(c) not in ("tokio::task::spawn::spawn", "tokio::spawn", "tokio::task::spawn_local", "tokio::task::local::spawn_local"):
                    continue
                for gi in c.get("ga", []):
                    t = bx.ty(gi)
                    if t[2] not in ("coroutine", "closure"):
                        continue
                    nspawn += 1
                    fut = t[3]
                    hit = None
                    for y in sorted(cg.reachable([fut])):
                        if y in F.bodies and F.bodies[y].crate == LS:
                            l = takes_analysis_write(y)
                            if l is not None:
                                hit = (y, l)
                                break
                    chk.check(hit is None, "R27d", "spawned-write:%s:%s" % (h.split("::")[-1], fut.replace(LS + "::", "")),
                              "%s hands a future to tokio::spawn (in %s) that takes the analysis write lock (%s): that part of the notification's "
                              "effect is applied in no defined order relative to the next didOpen/didChange/didClose of the same document"
                              % (h.split("::")[-1], x.replace(LS + "::", ""), hit[0].replace(LS + "::", "") if hit else ""),
                              bx.loc(c["l"]), witness={"handler": h, "spawned": fut, "writer": hit[0] if hit else None},
                              sample={"rule": "R27d", "handler": h.split("::")[-1], "spawned": fut.split("::")[-2:], "verdict": "does not write the analysis"})
    chk.unit("futures spawned from document-text handlers", nspawn)
    # R27e: the watcher's "is this file open in the editor?" test and its update of the analysis are one critical section
    import cfgutil as _cfg
    chk.rule("R27e", "on_did_change_watched_files tests is_open_file only while it holds the analysis write lock it later updates under (one "
                     "acquisition, dominating every test): didOpen/didChange, which take the same lock, cannot slip between test and update")
    wh = F.bodies.get(LS + "::handlers::text_document::watched_file_handler::on_did_change_watched_files::{closure#0}")
    if wh is None:
        raise RuleBroken("on_did_change_watched_files coroutine not found")
    acq = [bb for bb, c in wh.calls() if "RwLock" in name(c) and name(c).endswith("::write")
           and any(len(wh.ty(g)) > 3 and wh.ty(g)[3] == AW for g in c.get("ga", []))]
    tests = [(bb, c["l"]) for bb, c in wh.calls() if name(c).endswith("WorkspaceManager::is_open_file")]
    upd = [bb for bb, c in wh.calls() if name(c).endswith("EmmyLuaAnalysis::update_files_by_uri")]
    idom = _cfg.dominators(wh.succ_map(), 0)
    ok = len(acq) == 1 and tests and upd and all(_cfg.dominates(idom, acq[0], t) for t, _ in tests) and all(_cfg.dominates(idom, acq[0], u) for u in upd)
    # the open-file test must live in this body (not be moved into a helper that runs before the lock is taken)
    chk.check(bool(ok), "R27e", "watched-files:test-under-write-lock",
              "on_did_change_watched_files %s: between the test and the update a didOpen/didChange of that file can be applied, after which "
              "the stale text read from disk overwrites the editor's text in the analysis" %
              ("no longer tests is_open_file in the handler body" if not tests else
               "acquires the analysis write lock %d times" % len(acq) if len(acq) != 1 else
               "tests is_open_file (or updates) on a path that has not taken the analysis write lock yet"),
              wh.loc(tests[0][1] if tests else None), witness={"write_acquisitions": len(acq), "tests": [l for _, l in tests]},
              sample={"rule": "R27e", "fn": "on_did_change_watched_files", "verdict": "test and update under one write-lock acquisition"})
    chk.explanation = ("Write-set analysis finds the mutators of open_file_texts, the call graph finds the handlers that reach "
                       "them, the dispatch coroutine's MIR tells inline await from tokio::spawn.")

    # R27b: the text recorded for an open document is also the text handed to the analysis
    import cfgutil
    import dataflow
    chk.rule("R27b", "in didOpen/didChange every path from recording the text (sync_open_file) to the end of the handler reaches "
                     "update_file_by_uri, except through the workspace filter (a branch on get_file_id(..).is_some() / is_workspace_file(..))")
    SYNC = WM + "::sync_open_file"
    UPDATE = "emmylua_code_analysis::EmmyLuaAnalysis::update_file_by_uri"
    FILTER_CALLS = ("WorkspaceManager::is_workspace_file", "Option::<T>::is_some")
    nh = 0
    for b in F.bodies.values():
        if b.crate != LS or "::test" in b.id or not b.id.startswith(LS + "::handlers::text_document::text_document_handler::"):
            continue
        syncs = [bb for bb, c in b.calls() if name(c) == SYNC]
        if not syncs:
            continue
        nh += 1
        succ = b.succ_map()
        upd = {bb for bb, c in b.calls() if name(c) == UPDATE}
        key = "update-after-sync@%s" % b.id.split("::")[-2 if b.id.endswith("{closure#0}") else -1]

        def filter_false_edge(bi):
            """for a switch on (a negation of) the workspace-filter flag: the successor taken when the flag is false"""
            t = b.blocks[bi][2]
            if t[0] != "sw" or t[1][0] not in ("c", "m") or len(t[1][1]) != 1:
                return None
            l = t[1][1][0]
            neg = False
            for _ in range(4):
                ds = dataflow.def_sites(b).get(l, [])
                if len(ds) == 1 and ds[0][0] == "stmt" and ds[0][3][0] == "un" and ds[0][3][1] == "Not" and \
                        ds[0][3][2][0] in ("c", "m") and len(ds[0][3][2][1]) == 1:
                    neg = not neg
                    l = ds[0][3][2][1][0]
                    continue
                if len(ds) == 1 and ds[0][0] == "stmt" and ds[0][3][0] == "use" and ds[0][3][1][0] in ("c", "m") and len(ds[0][3][1][1]) == 1:
                    l = ds[0][3][1][1][0]
                    continue
                break
            if "bool" != b.local_ty_str(l):
                return None
            rs = dataflow.roots(b, l)
            if not rs:
                return None
            for r in rs:
                if r[0] == "const":
                    continue
                if r[0] == "call" and name(b.blocks[r[1]][2][1]).endswith(FILTER_CALLS):
                    continue
                return None
            flag_false_value = 1 if neg else 0     # value of the switched operand when the flag is false
            tgt = [tb for v, tb in t[2] if v == flag_false_value]
            return tgt[0] if tgt else t[3]

        cut = {}
        for bi in range(len(b.blocks)):
            e = filter_false_edge(bi)
            if e is not None:
                cut[bi] = e
        sub = [[y for y in v if not (k in cut and y == cut[k])] for k, v in enumerate(succ)]
        wit = None
        for s0 in syncs:
            p = cfgutil.paths_avoiding(sub, s0, set(b.returns()), upd)
            if p is not None:
                wit = p
        chk.check(wit is None and bool(upd), "R27b", key,
                  "the handler records the document text (sync_open_file) and can then finish without update_file_by_uri on a path that "
                  "is not the workspace filter: the open document is analysed with an older text (or not at all) although the editor sent a newer one",
                  b.loc(), witness={"path_blocks": wit, "lines": sorted({b.blocks[x][2][1]["l"] for x in (wit or []) if b.blocks[x][2][0] == "call"})[:12],
                                    "filter_branches": sorted(cut)},
                  sample={"rule": "R27b", "handler": key, "filter_branches": len(cut), "verdict": "every non-filtered path updates the analysis"})
    chk.floor("handlers recording document text", nh, 2)

    # R27c: every text the editor sends for an open document is recorded, whether or not the file is analysed right now
    chk.rule("R27c", "didOpen/didChange record the text (sync_open_file) on every path except a malformed notification (`?` exits): the table of "
                     "open texts is what a later reload applies, also for files that only become workspace files then")
    for b in F.bodies.values():
        if b.crate != LS or "::test" in b.id or not b.id.startswith(LS + "::handlers::text_document::text_document_handler::"):
            continue
        if not (b.id.endswith("on_did_open_text_document::{closure#0}") or b.id.endswith("on_did_change_text_document::{closure#0}")):
            continue
        succ = b.succ_map()
        syncs = {bb for bb, c in b.calls() if name(c) == SYNC}
        resid = {bb for bb, c in b.calls() if "FromResidual" in name(c)}
        sub = [[y for y in v if y not in resid] if k not in resid else [] for k, v in enumerate(succ)]
        p = cfgutil.paths_avoiding(sub, 0, set(b.returns()), syncs)
        key = "record-always@%s" % b.id.split("::")[-2]
        chk.check(bool(syncs) and p is None, "R27c", key,
                  "the handler can return without sync_open_file on a path that is not a `?` exit (for instance the workspace filter now comes first): the "
                  "newest text of an open document is not recorded, and a reload that makes the file part of the workspace analyses the text it had before",
                  b.loc(), witness={"path_blocks": p, "lines": sorted({b.blocks[x][2][1]["l"] for x in (p or []) if b.blocks[x][2][0] == "call"})[:10]},
                  sample={"rule": "R27c", "handler": key, "verdict": "recorded on every path"})
