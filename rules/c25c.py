"""R25c: range-precondition sites reachable from the position-taking request handlers.

Sites: text_size::TextRange::new (asserts start <= end), TextRange::at, TextSize - TextSize (underflow), and str/String
indexing by a range (panics off a char boundary / out of bounds), in emmylua_ls and emmylua_formatter functions reachable in
the call graph from the position-taking handlers.  Each site must be discharged by a recognised guard (below) or by an
entry of tables/panic_audit.json (one line of reason, keyed by function, kind and ordinal -- no line numbers).

Recognised:
  order-by-max     TextRange::new(s, e) where e = max(_, s)
  order-by-add     TextRange::new(s, e) where e = s + _
  order-same-range TextRange::new(r.start(), r.end()) / r.end() - r.start() for one range value r
  order-by-guard   the site is only reachable through the edge of a dominating comparison on which s <= e holds
  boundary-range   str[range] where the range is built only from char-boundary sources of the same document: line ranges,
                   node/token ranges, LuaDocument::get_offset results, intersect / up_to / cover of those
  prefix-literal   str[k..] after a dominating starts_with(<ascii literal of >= k bytes>) (lib/panicsurface.py)
"""
import callgraph
import cfgutil
import dataflow
import guards
import panicsurface

CRATES = ("emmylua_ls", "emmylua_formatter")
ENTRY = ("call_hierarchy::on_incoming_calls_handler", "call_hierarchy::on_outgoing_calls_handler",
         "call_hierarchy::on_prepare_call_hierarchy_handler", "code_actions::on_code_action_handler",
         "completion::on_completion_handler", "definition::on_goto_definition_handler",
         "document_highlight::on_document_highlight_handler", "document_range_formatting::on_range_formatting_handler",
         "document_selection_range::on_document_selection_range_handle", "document_type_format::on_type_formatting_handler",
         "hover::on_hover", "implementation::on_implementation_handler", "inlay_hint::on_inlay_hint_handler",
         "inline_values::on_inline_values_handler", "references::on_references_handler", "rename::on_prepare_rename_handler",
         "rename::on_rename_handler", "signature_helper::on_signature_helper_handler",
         "emmy_gutter::on_emmy_gutter_detail_handler")
BOUNDARY_CALLS = ("LuaDocument::get_line_range", "LuaDocument::get_offset", "LuaDocument::get_col_offset_at_line",
                  "::text_range", "::get_range", "::get_position", "TextRange::intersect", "TextRange::up_to", "TextRange::cover",
                  "TextRange::start", "TextRange::end", "TextRange::empty", "LuaDocument::get_document_range")
PASS_THROUGH = ("Try>::branch", "Option::<T>::unwrap_or", "Clone>::clone", "Into<U>>::into", "From<T>>::from", "::unwrap_or_default")


def name(c):
    return c.get("r") or c.get("f") or ""


def kind_of(n):
    if n.endswith("text_size::range::TextRange::new"):
        return "range-new"
    if n.endswith("text_size::range::TextRange::at"):
        return "range-at"
    if n.startswith("<text_size::") and "::Sub" in n:
        return "size-sub"
    if n.endswith("::index") and ("for str>" in n or "alloc::string::String as core::ops::index::Index" in n):
        return "str-index"
    return None


def _roots(b, op):
    """roots of an operand; the payload of a `?`/Some/Ok destructuring is followed to the destructured value"""
    l = dataflow.operand_local(op)
    if l is None:
        return set()
    out, todo, seen = set(), [l], set()
    while todo:
        x = todo.pop()
        if x in seen:
            continue
        seen.add(x)
        for r in dataflow.roots(b, x):
            if r[0] == "place" and r[2] and isinstance(r[2][0], (list, tuple)) and r[2][0][0] == "d" and \
                    r[2][0][1] in ("Continue", "Some", "Ok") and len(r[2]) == 2:
                todo.append(r[1])
            else:
                out.add(r)
    return out


CONVERSIONS = ("Into<U>>::into", "From<T>>::from", "From<u32>>::from", "TextSize::new", "Clone>::clone")


def _value_roots(b, op, depth=0):
    """roots with value-preserving conversions (into/from/TextSize::new/clone) looked through"""
    out = set()
    for r in _roots(b, op):
        if r[0] == "call" and depth < 6:
            c = b.blocks[r[1]][2][1]
            if name(c).endswith(CONVERSIONS) and len(c["a"]) == 1:
                out |= _value_roots(b, c["a"][0], depth + 1)
                continue
        out.add(r)
    return out


def _same_root(b, x, y):
    rx, ry = _value_roots(b, x), _value_roots(b, y)
    return bool(rx) and rx == ry


def _def_calls(b, op):
    """calls defining the operand (through copies/refs and value-preserving conversions)"""
    return [b.blocks[r[1]][2][1] for r in _value_roots(b, op) if r[0] == "call"]


def _order_recognised(b, bb, s, e):
    # e = max(x, s) / e = s + x
    for c in _def_calls(b, e):
        n = name(c)
        if n.endswith(("::max", "Ord>::max")) and any(_same_root(b, a, s) for a in c["a"]):
            return "order-by-max"
        if "::Add" in n and n.endswith("::add") and c["a"] and _same_root(b, c["a"][0], s):
            return "order-by-add"
    # same range
    cs, ce = _def_calls(b, s), _def_calls(b, e)
    if len(cs) == 1 and len(ce) == 1 and name(cs[0]).endswith("TextRange::start") and name(ce[0]).endswith("TextRange::end") and \
            cs[0]["a"] and ce[0]["a"] and _same_root(b, cs[0]["a"][0], ce[0]["a"][0]):
        return "order-same-range"
    # dominating comparison
    succ = b.succ_map()
    idom = cfgutil.dominators(succ, 0)
    for gb, blk in enumerate(b.blocks):
        if blk[0] or not cfgutil.dominates(idom, gb, bb):
            continue
        cmps = []   # (op, a, b, true_target, false_target)
        t = blk[2]
        if t[0] == "sw" and t[1][0] in ("c", "m") and len(t[1][1]) == 1:
            cl = t[1][1][0]
            for st in blk[1]:
                if st[0] == "a" and st[1] == [cl] and st[2][0] == "bin" and st[2][1] in ("Lt", "Le", "Gt", "Ge"):
                    false_t = [tb for v, tb in t[2] if v == 0]
                    if false_t:
                        cmps.append((st[2][1], st[2][2], st[2][3], t[3], false_t[0]))
        if t[0] == "call" and name(t[1]).endswith(("PartialOrd>::lt", "PartialOrd>::le", "PartialOrd>::gt", "PartialOrd>::ge",
                                                   "PartialOrd::lt", "PartialOrd::le", "PartialOrd::gt", "PartialOrd::ge")) and len(t[1]["a"]) == 2:
            br = guards.bool_branch(b, gb)
            if br is not None:
                op = {"lt": "Lt", "le": "Le", "gt": "Gt", "ge": "Ge"}[name(t[1]).rsplit("::", 1)[1]]
                cmps.append((op, t[1]["a"][0], t[1]["a"][1], br[0], br[1]))
        for op, x, y, tt, ft in cmps:
            # which edge implies s <= e ?
            good = None
            if _same_root(b, x, s) and _same_root(b, y, e):      # s op e
                good = {"Lt": tt, "Le": tt, "Gt": ft}.get(op)
            elif _same_root(b, x, e) and _same_root(b, y, s):    # e op s
                good = {"Gt": tt, "Ge": tt, "Lt": ft}.get(op)
            if good is None:
                continue
            other = ft if good == tt else tt
            if cfgutil.dominates(idom, good, bb) or bb not in cfgutil.reachable(succ, other) or \
                    bb not in (cfgutil.reachable(succ, other) - cfgutil.reachable(succ, good)) and cfgutil.dominates(idom, good, bb):
                return "order-by-guard"
    return None


def _boundary_range(F, b, op, depth=0, seen=None):
    """every root of the operand is a char-boundary source"""
    seen = seen if seen is not None else set()
    rs = _roots(b, op)
    if not rs:
        return False
    for r in rs:
        if r in seen:
            continue
        seen.add(r)
        if r[0] == "call":
            c = b.blocks[r[1]][2][1]
            n = name(c)
            if n.endswith(PASS_THROUGH):
                if not all(_boundary_range(F, b, a, depth + 1, seen) for a in c["a"][:1]):
                    return False
                continue
            if n.endswith(BOUNDARY_CALLS):
                # the composing calls need boundary inputs as well (intersect / up_to / cover)
                if n.endswith(("TextRange::intersect", "TextRange::up_to", "TextRange::cover")):
                    if not all(_boundary_range(F, b, a, depth + 1, seen) for a in c["a"]):
                        return False
                continue
            return False
        elif r[0] == "place":
            # a field of a struct: accept the offsets the request entry computed with LuaDocument::get_offset
            proj = r[2]
            fld = [e[2] for e in proj if isinstance(e, (list, tuple)) and e[0] == "f"]
            if fld and fld[-1] in ("position_offset",):
                continue
            return False
        else:
            return False
    return True


def _sub_ok(B, bi, a, c):
    """a - c cannot underflow: a dominating comparison gives c <= a (or a constant bound does)"""
    ka, kc = B.val_key(a), B.val_key(c)
    if kc[0] == "int" and kc[1] == 0:
        return "minus 0"
    if ka[0] == "int" and ka[1] in (2 ** 64 - 1, 2 ** 32 - 1):
        return "minuend is the type's MAX"
    for tgt, x, strict, y in B.edge_facts():
        if not B._holds_at(tgt, bi):
            continue
        if y == ka and x == kc:
            return "dominating comparison: subtrahend <= minuend"
        if y == ka and x[0] == "int" and kc[0] == "int" and (x[1] >= kc[1] or (strict and x[1] + 1 >= kc[1])):
            return "minuend compared with a constant >= the subtrahend"
    if ka[0] == "len" and kc[0] == "int" and kc[1] == 1:
        for tgt, x, strict, y in B.edge_facts():
            if x == ("int", 0) and strict and y == ka and B._holds_at(tgt, bi):
                return "len - 1 after a non-empty test"
    return None


def scope(F):
    entries = ["emmylua_ls::handlers::" + e for e in ENTRY]
    missing = [e for e in entries if e not in F.bodies]
    cg = callgraph.CallGraph(F)
    reach = [x for x in cg.reachable(entries) if x in F.bodies and F.bodies[x].crate in CRATES and "::test" not in x]
    return entries, missing, cg, reach


def run_r25c(chk, F):
    rule = "R25c"
    chk.rule(rule, "range-precondition sites (TextRange::new/at, TextSize subtraction, str indexing by range) reachable from the "
                   "position-taking handlers are discharged by a recognised guard or by the audited table")
    entries, missing, cg, reach = scope(F)
    for m in missing:
        chk.violation(rule, "entry:" + m, "position-taking handler entry point %s not found: the scope of R25c is stale" % m, None)
    table = panicsurface.load_table()
    n = rec = aud = 0
    for bid in sorted(reach):
        b = F.bodies[bid]
        ordinal = {}
        for bb, c in b.calls():
            k = kind_of(name(c))
            if k is None:
                continue
            ordinal[k] = ordinal.get(k, 0) + 1
            key = "C25|%s|%s#%d" % (bid, k, ordinal[k])
            n += 1
            why = None
            if k == "range-new" and len(c["a"]) == 2:
                why = _order_recognised(b, bb, c["a"][0], c["a"][1])
            elif k == "size-sub" and len(c["a"]) == 2:
                why = _order_recognised(b, bb, c["a"][1], c["a"][0])
            elif k == "str-index":
                why = panicsurface.recognise(F, b, bb, "str-slice")
                if why is None and len(c["a"]) == 2 and "Index<text_size::range::TextRange>" in name(c) and \
                        _boundary_range(F, b, c["a"][1]):
                    why = "boundary-range: the range is built only from line/node ranges and document offsets"
                if why is None and len(c["a"]) == 2:
                    # Range { start, end } aggregate guarded by a comparison
                    l = dataflow.operand_local(c["a"][1])
                    for d in dataflow.def_sites(b).get(l, []) if l is not None else []:
                        if d[0] == "stmt" and d[3][0] == "agg" and d[3][2] and d[3][2].endswith("ops::range::Range") and len(d[3][4]) == 2:
                            why = _order_recognised(b, bb, d[3][4][0], d[3][4][1])
            if why:
                rec += 1
                chk.ok(rule, key, {"rule": rule, "site": b.loc(c["l"]), "kind": k, "verdict": "guard recognised", "reason": why})
            elif key in table:
                aud += 1
                chk.ok(rule, key, {"rule": rule, "site": b.loc(c["l"]), "kind": k, "verdict": "audited", "reason": table[key]})
            else:
                chain = cg.path(entries, bid) or [bid]
                chk.violation(rule, key,
                              "undischarged range-precondition site (%s) reachable from %s: neither an ordering/char-boundary guard is "
                              "recognised nor is the site in the audited table" % (k, chain[0].split("::")[-1]),
                              b.loc(c["l"]), witness={"call_chain": chain[:12], "kind": k, "callee": name(c)})
    # unsigned integer subtractions in the handlers themselves (u32 / usize offsets and indices: an underflow panics in debug builds and
    # wraps to a huge offset in release builds, where rowan then asserts)
    import bounds
    nsub = 0
    for bid in sorted(reach):
        b = F.bodies[bid]
        if b.crate != "emmylua_ls":
            continue
        B = None
        k = 0
        for bi, blk in enumerate(b.blocks):
            if blk[0]:
                continue
            for st in blk[1]:
                if not (st[0] == "a" and st[2][0] == "bin" and st[2][1] in ("Sub", "SubWithOverflow")):
                    continue
                t = b.local_ty_str(st[1][0]) if len(st[1]) == 1 else ""
                if not (t in ("usize", "u32", "u64") or t.startswith(("(usize", "(u32", "(u64"))):
                    continue
                k += 1
                nsub += 1
                n += 1
                key = "C25|%s|uint-sub#%d" % (bid, k)
                if B is None:
                    B = bounds.Bounds(F, b)
                why = _sub_ok(B, bi, st[2][2], st[2][3])
                if why:
                    rec += 1
                    chk.ok(rule, key, {"rule": rule, "site": b.loc(st[3] if len(st) > 3 else None), "kind": "uint-sub", "verdict": "guard recognised", "reason": why})
                elif key in table:
                    aud += 1
                    chk.ok(rule, key, {"rule": rule, "site": b.loc(st[3] if len(st) > 3 else None), "kind": "uint-sub", "verdict": "audited", "reason": table[key]})
                else:
                    chain = cg.path(entries, bid) or [bid]
                    chk.violation(rule, key, "unsigned subtraction without a recognised guard (minuend >= subtrahend) or an audited entry, reachable from %s: "
                                             "for some document/position it underflows -- a panic in debug builds, a wrapped offset that trips rowan's "
                                             "assertions in release builds" % chain[0].split("::")[-1], b.loc(st[3] if len(st) > 3 else None),
                                  witness={"call_chain": chain[:12], "kind": "uint-sub"})
    chk.floor("unsigned subtractions in position-handler code", nsub, 8)
    chk.unit("functions reachable from position-taking handlers (ls + formatter)", len(reach))
    chk.unit("range-precondition sites", n)
    chk.unit("range-precondition sites discharged by recognised guards", rec)
    chk.unit("range-precondition sites discharged by the audited table", aud)
    chk.floor("range-precondition sites in scope", n, 25)
    chk.floor("position-taking handler entry points", len(entries) - len(missing), 19)


def run_r25d(chk, F):
    """R25d: Vec / slice indexing, split_at, remove/insert/drain in emmylua_ls code reachable from the position-taking handlers
    (string ranges and TextRange construction are R25c's)"""
    from rules import c12c
    entries, missing, cg, reach = scope(F)
    kinds = tuple(k for k in c12c.KINDS if k not in ("textrange-new", "str-slice"))
    n, rec, aud = c12c.bounds_audit(chk, F, "R25d", "C25", "emmylua_ls", "emmylua_ls code reachable from the position-taking handlers",
                                    "the request handler panics", only=set(reach), kinds=kinds)
    chk.floor("index/slice sites in position-handler code", n, 50)
    chk.floor("index/slice sites in position-handler code discharged by a derived bounds fact", rec, 30)
