"""C05 / C07 (syntax-error guard clause): input with syntax errors is never handed to the formatter cores.

R05  every call path from a public entry to formatter::format_chunk passes a LuaSyntaxTree::has_syntax_errors test
     whose true edge cannot reach the call.  Functions that only receive an already parsed &LuaChunk (no tree to test)
     pass the obligation on to each of their callers.
R07  the same for range_format::reformat_range_in_chunk and the fragment re-parse inside range formatting.
"""
import cfgutil
import guards
import prov
from report import RuleBroken

FMT = "emmylua_formatter"
FORMAT_CHUNK = FMT + "::formatter::format_chunk"
RANGE_CORE = FMT + "::formatter::range_format::reformat_range_in_chunk"
HAS_ERR = "emmylua_parser::syntax::tree::LuaSyntaxTree::has_syntax_errors"


def name(c):
    return c.get("r") or c.get("f") or ""


def is_test(bid):
    return "::test::" in bid or "::tests::" in bid or bid.endswith("::test") or "::test_" in bid


def guarded(b, call_bb):
    """the call is dominated by a has_syntax_errors test whose true edge does not reach it"""
    succ = b.succ_map()
    tests = [bb for bb, c in b.calls() if name(c).endswith("::has_syntax_errors")]
    if not tests:
        return False, "no has_syntax_errors test in %s" % b.id
    p = cfgutil.paths_avoiding(succ, 0, {call_bb}, set(tests))
    if p is not None:
        return False, "a path reaches the formatter without the test"
    for t in tests:
        br = guards.bool_branch(b, t)
        if br is None:
            continue
        if call_bb in cfgutil.reachable(succ, br[0]):
            # allowed only if another dominating test lies on every path from this true edge
            return False, "the formatter is reachable from the `has errors` edge"
    return True, None


def check_core(chk, F, rule, core, what, floor_sites):
    idx = {}
    for b in F.bodies.values():
        for bb, c in b.calls():
            idx.setdefault(name(c), []).append((b, bb, c))
    work = [core]
    seen = set()
    n = 0
    while work:
        g = work.pop()
        if g in seen:
            continue
        seen.add(g)
        for b, bb, c in idx.get(g, []):
            if is_test(b.id) or b.crate not in (FMT, "emmylua_ls", "luafmt", "emmylua_check", "emmylua_doc_cli"):
                continue
            n += 1
            ok, why = guarded(b, bb)
            key = "%s<-%s" % (g.split("::")[-1], b.id)
            if ok:
                chk.ok(rule, key, {"rule": rule, "call": key, "verdict": "dominated by has_syntax_errors, error edge cannot reach it"})
                continue
            # pass-through: the caller only has a chunk, not a tree
            has_chunk_param = any("LuaChunk" in b.local_ty_str(i) for i in range(1, b.argc + 1))
            owner = b.id
            if b.kind in ("closure", "coroutine"):
                has_chunk_param = False
            if has_chunk_param and b.kind == "fn":
                chk.ok(rule, key, {"rule": rule, "call": key, "verdict": "chunk pass-through: obligation moves to its callers"})
                work.append(owner)
                continue
            chk.violation(rule, key,
                          "%s is called from %s without a syntax-error guard (%s): a document with syntax errors is "
                          "%s instead of being returned unchanged" % (g.split("::")[-1], b.id, why, what), b.loc(c["l"]))
    chk.floor("%s call sites" % core.split("::")[-1], n, floor_sites)
    return n


def run_c05(chk, F, tier):
    chk.rule("R05", "every path to formatter::format_chunk passes a has_syntax_errors test whose true edge cannot reach it")
    chk.assume("decides only the 'input with syntax errors is returned unchanged' clause; token/comment preservation is value level")
    if FORMAT_CHUNK not in F.bodies:
        raise RuleBroken("format_chunk not found")
    check_core(chk, F, "R05", FORMAT_CHUNK, "reformatted", 3)
    # R05c: source text is appended verbatim
    import callgraph
    chk.rule("R05c", "Printer::push_text / push_syntax_text (the only way token and comment text reaches the output) never reach an operation that "
                     "removes characters from the output buffer: trimming belongs to the printer's own line ends (push_newline)")
    PR = FMT + "::printer::Printer"
    SHRINK = ("String::truncate", "String::pop", "String::clear", "String::drain", "String::remove", "String::replace_range", "String::retain",
              "String::split_off")
    cg = callgraph.CallGraph(F)
    shrinkers = {}
    for b in F.bodies.values():
        if b.crate != FMT or is_test(b.id):
            continue
        for bb, c in b.calls():
            if name(c).endswith(SHRINK) and c["a"] and c["a"][0][0] in ("c", "m"):
                l = c["a"][0][1][0]
                fld = None
                for blk in b.blocks:
                    for st in blk[1]:
                        if st[0] == "a" and st[1] == [l] and st[2][0] == "ref":
                            for e in st[2][2][1:]:
                                if isinstance(e, list) and e[0] == "f":
                                    fld = e[2]
                if fld == "output":
                    shrinkers.setdefault(b.id, []).append(c["l"])
    chk.floor("functions that shrink the printer output", len(shrinkers), 1)
    nsrc = 0
    for entry in (PR + "::push_text", PR + "::push_syntax_text"):
        if entry not in F.bodies:
            raise RuleBroken("%s not found" % entry)
        nsrc += 1
        reach = cg.reachable([entry])
        bad = sorted(x for x in reach if x in shrinkers)
        chk.check(not bad, "R05c", "verbatim@%s" % entry.split("::")[-1],
                  "%s reaches %s, which removes characters from the output buffer: text of a multi-line token (long string, long comment) pushed "
                  "as one chunk loses the spaces before its inner newlines, so the token sequence of the output differs from the input"
                  % (entry.split("::")[-1], [x.split("::")[-1] for x in bad]), F.bodies[entry].loc(),
                  witness={"shrinking_functions": bad}, sample={"rule": "R05c", "entry": entry.split("::")[-1], "verdict": "append-only"})
    chk.explanation = "Dominance + guard-edge analysis at every call site of the formatter core, obligations propagated through chunk pass-through wrappers; who-may-shrink on the printer's output buffer."


def run_c07(chk, F, tier):
    chk.rule("R07", "every path to range_format::reformat_range_in_chunk passes a has_syntax_errors test; fragment re-parses are tested")
    chk.assume("decides only the syntax-error guard clause of range formatting; replaced-region arithmetic is value level")
    if RANGE_CORE not in F.bodies:
        raise RuleBroken("reformat_range_in_chunk not found")
    check_core(chk, F, "R07", RANGE_CORE, "range-formatted", 2)
    # inside the range formatter: every LuaParser::parse result is tested before its chunk is formatted
    n = 0
    for b in F.bodies.values():
        if not b.id.startswith(FMT + "::formatter::range_format") or is_test(b.id):
            continue
        parses = [bb for bb, c in b.calls() if name(c).endswith("LuaParser::parse")]
        if not parses:
            continue
        n += 1
        fmt_calls = [bb for bb, c in b.calls() if name(c) in (FORMAT_CHUNK,) or name(c).endswith("::get_chunk_node")]
        tests = [bb for bb, c in b.calls() if name(c).endswith("::has_syntax_errors")]
        succ = b.succ_map()
        ok = bool(tests)
        for f in fmt_calls:
            if cfgutil.paths_avoiding(succ, 0, {f}, set(tests)) is not None:
                ok = False
        chk.check(ok, "R07", "reparse-tested@%s" % b.id, "%s re-parses text and uses the tree without testing for syntax errors" % b.id, b.loc())
    chk.floor("range-format functions that parse", n, 3)
    # R07b: the replacement ends with a line break exactly when the replaced region did
    import dataflow
    chk.rule("R07b", "the fragment's `insert_final_newline` is decided by `fragment.ends_with('\\n')` -- the last byte of a line break in every "
                     "line-ending convention -- not by a terminator guessed from elsewhere in the fragment")
    core = F.bodies.get(RANGE_CORE)
    nset = 0
    for blk in core.blocks:
        for st in blk[1]:
            if st[0] == "a" and any(isinstance(e, list) and e[0] == "f" and e[2] == "insert_final_newline" for e in st[1][1:]):
                nset += 1
                ok = False
                why = "not the result of ends_with"
                l = dataflow.operand_local(st[2][1]) if st[2][0] == "use" else None
                for r in (dataflow.roots(core, l) if l is not None else ()):
                    if r[0] == "call":
                        c = core.blocks[r[1]][2][1]
                        if name(c).endswith("::ends_with") and len(c["a"]) == 2:
                            pat = c["a"][1]
                            if pat[0] == "k" and pat[1] in ("char", "str") and isinstance(pat[2], str) and pat[2].endswith("\n"):
                                ok = True
                            else:
                                why = "ends_with a pattern that is not the constant '\\n'"
                chk.check(ok, "R07b", "final-newline#%d" % nset,
                          "reformat_range_in_chunk decides the fragment's final newline by something other than `fragment.ends_with('\\n')` (%s): in a "
                          "region whose line endings are mixed the replacement loses its last line break and its last line is glued to the next "
                          "untouched line (tokens merge, a statement disappears into a comment)" % why, core.loc(st[3] if len(st) > 3 else None),
                          sample={"rule": "R07b", "verdict": "ends_with('\\n')"})
    chk.floor("assignments of insert_final_newline in the range formatter", nset, 1)
    chk.explanation = "Dominance + guard-edge analysis at every call site of the range formatter core and at every re-parse inside it; source of the fragment's final-newline flag."
