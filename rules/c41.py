"""C41: loop-exit flow provenance.

R41a  for every loop binder (found by signature: (&mut FlowBinder, Lua{While,Repeat,For,ForRange}Stat, FlowId) -> FlowId):
      on no path on which the loop body was bound (bind_iter_block called) may the function return the incoming
      `current` flow: the flow after the loop must be derived from the loop's exit label, otherwise the narrowing
      state after the loop ignores every assignment made in the body.
R41b  the loop label created by create_loop_label is what the body binder receives as its continue target, so the
      body's end flow becomes an antecedent of the loop head.
"""
import cfgutil
import dataflow
from report import RuleBroken

CA = "emmylua_code_analysis"
BIND = CA + "::compilation::analyzer::flow::bind_analyze"
LOOP_STATS = ("LuaWhileStat", "LuaRepeatStat", "LuaForStat", "LuaForRangeStat")


def name(c):
    return c.get("r") or c.get("f") or ""


def run(chk, F, tier):
    chk.rule("R41a", "a loop binder never returns the pre-loop flow on a path that bound the loop body")
    chk.rule("R41b", "the loop label is the continue target handed to the body binder")
    chk.assume("decides flow-graph provenance of the post-loop flow, not the type-level soundness of the merge")
    binders = []
    for b in F.bodies.values():
        if b.kind != "fn" or not b.id.startswith(BIND) or b.argc != 3:
            continue
        if "FlowBinder" not in b.local_ty_str(1) or not b.local_ty_str(1).startswith("&mut"):
            continue
        if not any(b.local_ty_str(2).endswith(s) for s in LOOP_STATS):
            continue
        if not b.local_ty_str(3).endswith("FlowId") or not b.local_ty_str(0).endswith("FlowId"):
            continue
        binders.append(b)
    chk.floor("loop binders", len(binders), 4)
    for b in sorted(binders, key=lambda x: x.id):
        nm = b.id.split("::")[-1]
        succ = b.succ_map()
        body_calls = {bb for bb, c in b.calls() if name(c).endswith("::bind_iter_block")}
        if not body_calls:
            chk.violation("R41a", nm + ":binds-body", "%s does not call bind_iter_block" % nm, b.loc())
            continue
        after_body = set()
        for x in body_calls:
            after_body |= cfgutil.reachable(succ, x)
        bad = []
        for bi, blk in enumerate(b.blocks):
            if blk[0] or bi not in after_body:
                continue
            for st in blk[1]:
                if st[0] == "a" and st[1] == [0] and st[2][0] == "use" and st[2][1][0] in ("c", "m"):
                    src = st[2][1][1]
                    if len(src) == 1:
                        rs = dataflow.roots(b, src[0])
                        if ("arg", 3) in rs:
                            bad.append((bi, st[3]))
        chk.check(not bad, "R41a", nm + ":post-loop-flow",
                  "%s returns the incoming `current` flow after binding the loop body (line %s): whatever the body assigns "
                  "is invisible after the loop, e.g. `while not k do k = 'x' end; k:upper()` still sees k as nil"
                  % (nm, sorted({l for _, l in bad})), b.loc(bad[0][1] if bad else None),
                  witness={"blocks": [x for x, _ in bad]},
                  sample={"rule": "R41a", "binder": nm, "verdict": "post-loop flow derives from the loop exit label"})
        # R41b
        ok = False
        for x in body_calls:
            c = b.blocks[x][2][1]
            for a in c["a"][3:4]:
                l = dataflow.operand_local(a)
                if l is None:
                    continue
                rs = dataflow.roots(b, l)
                if any(r[0] == "call" and name(b.blocks[r[1]][2][1]).endswith("::create_loop_label") for r in rs):
                    ok = True
        chk.check(ok, "R41b", nm + ":loop-label", "%s does not hand its loop label to the body binder as continue target" % nm, b.loc(),
                  sample={"rule": "R41b", "binder": nm, "verdict": "loop label passed"})
    chk.explanation = "Return-value provenance of every loop binder on the paths that pass the body binder."
