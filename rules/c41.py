"""C41: loop-exit flow provenance.

R41a  for every loop binder (found by signature: (&mut FlowBinder, Lua{While,Repeat,For,ForRange}Stat, FlowId) -> FlowId):
      on no path on which the loop body was bound (bind_iter_block called) may the function return the incoming
      `current` flow: the flow after the loop must be derived from the loop's exit label, otherwise the narrowing
      state after the loop ignores every assignment made in the body.
R41b  the loop label created by create_loop_label is what the body binder receives as its continue target, so the
      body's end flow becomes an antecedent of the loop head.
"""
import cfgutil
import dataflow
from report import RuleBroken

CA = "emmylua_code_analysis"
BIND = CA + "::compilation::analyzer::flow::bind_analyze"
LOOP_STATS = ("LuaWhileStat", "LuaRepeatStat", "LuaForStat", "LuaForRangeStat")


def name(c):
    return c.get("r") or c.get("f") or ""


def run(chk, F, tier):
    chk.rule("R41a", "a loop binder never returns the pre-loop flow on a path that bound the loop body")
    chk.rule("R41b", "the loop label is the continue target handed to the body binder")
    chk.assume("decides flow-graph provenance of the post-loop flow, not the type-level soundness of the merge")
    binders = []
    for b in F.bodies.values():
        if b.kind != "fn" or not b.id.startswith(BIND) or b.argc != 3:
            continue
        if "FlowBinder" not in b.local_ty_str(1) or not b.local_ty_str(1).startswith("&mut"):
            continue
        if not any(b.local_ty_str(2).endswith(s) for s in LOOP_STATS):
            continue
        if not b.local_ty_str(3).endswith("FlowId") or not b.local_ty_str(0).endswith("FlowId"):
            continue
        binders.append(b)
    chk.floor("loop binders", len(binders), 4)
    for b in sorted(binders, key=lambda x: x.id):
        nm = b.id.split("::")[-1]
        succ = b.succ_map()
        body_calls = {bb for bb, c in b.calls() if name(c).endswith("::bind_iter_block")}
        if not body_calls:
            chk.violation("R41a", nm + ":binds-body", "%s does not call bind_iter_block" % nm, b.loc())
            continue
        after_body = set()
        for x in body_calls:
            after_body |= cfgutil.reachable(succ, x)
        bad = []
        for bi, blk in enumerate(b.blocks):
            if blk[0] or bi not in after_body:
                continue
            for st in blk[1]:
                if st[0] == "a" and st[1] == [0] and st[2][0] == "use" and st[2][1][0] in ("c", "m"):
                    src = st[2][1][1]
                    if len(src) == 1:
                        rs = dataflow.roots(b, src[0])
                        if ("arg", 3) in rs:
                            bad.append((bi, st[3]))
        chk.check(not bad, "R41a", nm + ":post-loop-flow",
                  "%s returns the incoming `current` flow after binding the loop body (line %s): whatever the body assigns "
                  "is invisible after the loop, e.g. `while not k do k = 'x' end; k:upper()` still sees k as nil"
                  % (nm, sorted({l for _, l in bad})), b.loc(bad[0][1] if bad else None),
                  witness={"blocks": [x for x, _ in bad]},
                  sample={"rule": "R41a", "binder": nm, "verdict": "post-loop flow derives from the loop exit label"})
        # R41b
        ok = False
        for x in body_calls:
            c = b.blocks[x][2][1]
            for a in c["a"][3:4]:
                l = dataflow.operand_local(a)
                if l is None:
                    continue
                rs = dataflow.roots(b, l)
                if any(r[0] == "call" and name(b.blocks[r[1]][2][1]).endswith("::create_loop_label") for r in rs):
                    ok = True
        chk.check(ok, "R41b", nm + ":loop-label", "%s does not hand its loop label to the body binder as continue target" % nm, b.loc(),
                  sample={"rule": "R41b", "binder": nm, "verdict": "loop label passed"})
    chk.explanation = "Return-value provenance of every loop binder on the paths that pass the body binder."

    # ---- R41c: when a loop is treated as certainly entered, its end-of-body flow is always merged into the exit label --------
    chk.rule("R41c", "finish_entered_loop_post_flow adds the end-of-body flow to the post-loop label on every path (a numeric for also leaves "
                     "by normal completion, so the merge may not depend on whether a break reached the label)")
    ST = "emmylua_code_analysis::compilation::analyzer::flow::bind_analyze::stats::"
    fin = F.bodies.get(ST + "finish_entered_loop_post_flow")
    if fin is None:
        raise RuleBroken("finish_entered_loop_post_flow not found")
    adds = set()
    for bb, c in fin.calls():
        if name(c).endswith("FlowBinder::add_antecedent") and len(c["a"]) >= 3:
            la, lb = dataflow.operand_local(c["a"][1]), dataflow.operand_local(c["a"][2])
            ra = dataflow.roots(fin, la) if la is not None else set()
            rb = dataflow.roots(fin, lb) if lb is not None else set()
            if ("arg", 2) in ra and ("arg", 3) in rb:
                adds.add(bb)
    p = cfgutil.paths_avoiding(fin.succ_map(), 0, set(fin.returns()), adds) if adds else [0]
    chk.check(bool(adds) and p is None, "R41c", "merge-body-end",
              "finish_entered_loop_post_flow can return without add_antecedent(after_loop_label, block_flow): assignments live at the end of the body "
              "of a statically entered numeric for are lost after the loop (the variable keeps its pre-loop type)", fin.loc(),
              witness={"path_blocks": p}, sample={"rule": "R41c", "verdict": "merged on every path"})

    # ---- R41d: "cannot tell statically" never turns into "enters" ----------------------------------------------------------------
    chk.rule("R41d", "an unknown static value (static_number_value / static_literal_truthiness returned None) is never replaced by a default: "
                     "their results are only pattern-matched, not passed to unwrap_or / map_or / unwrap_or_default")
    STATIC = (ST + "static_number_value", ST + "static_literal_truthiness")
    nuse = 0
    for b in F.bodies.values():
        if not b.id.startswith(ST):
            continue
        # locals holding a result of the static evaluators (directly, or through and_then/map/filter with the fn item)
        tainted = set()
        for bb, c in b.calls():
            n = name(c)
            direct = n in STATIC
            via = n.endswith(("Option::<T>::and_then", "Option::<T>::map", "Iterator::map", "Iterator::filter_map")) and \
                any(a[0] == "k" and a[1] == "fn" and (a[2] in STATIC or (len(a) > 4 and a[4] in STATIC)) for a in c["a"])
            if (direct or via) and len(c["d"]) == 1:
                tainted.add(c["d"][0])
                nuse += 1
        changed = True
        while changed:
            changed = False
            for blk in b.blocks:
                for st in blk[1]:
                    if st[0] == "a" and len(st[1]) == 1 and st[1][0] not in tainted and st[2][0] in ("use", "ref"):
                        srcp = st[2][2] if st[2][0] == "ref" else (st[2][1][1] if st[2][1][0] in ("c", "m") else None)
                        if srcp and len(srcp) == 1 and srcp[0] in tainted:
                            tainted.add(st[1][0])
                            changed = True
        for bb, c in b.calls():
            n = name(c)
            if n.endswith(("::unwrap_or", "::unwrap_or_default", "::unwrap_or_else", "::map_or", "::map_or_else", "::is_some_and", "::is_none_or")) and \
                    c["a"] and c["a"][0][0] in ("c", "m") and c["a"][0][1][0] in tainted:
                if n.endswith(("::is_some_and",)):
                    continue      # None stays false: not a default
                chk.violation("R41d", "defaulted-static@%s" % b.id.split("::")[-1],
                              "%s replaces an unknown static value by a default (%s): an expression the binder cannot evaluate (a variable or `-1` "
                              "as the step) is then treated like the default literal and the loop counts as statically entered"
                              % (b.id.split("::")[-1], n.split("::")[-1]), b.loc(c["l"]))
    chk.floor("uses of the static evaluators in the loop binders", nuse, 5)
    if True:
        chk.ok("R41d", "static-values-only-matched", {"rule": "R41d", "verdict": "results of the static evaluators are only pattern-matched", "uses": nuse})
