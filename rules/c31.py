"""C31: panic surface of configuration loading.

R31  every panic-capable site (unwrap/expect, indexing and slicing, serde_json::Value index, panics) in the functions
     of emmylua_code_analysis::config reachable from the loading entry points is discharged by a recognised guard, by
     API knowledge or by the audited table.  Contracts: `value[key] = ..` on serde_json::Value panics unless the
     receiver is an object or null; a constant-offset `&s[N..]` needs a dominating ASCII prefix test of >= N bytes.
"""
import panicsurface
from report import RuleBroken

CFG = "emmylua_code_analysis::config"


def run(chk, F, tier):
    chk.rule("R31", "panic surface of config loading: every site discharged by guard / API knowledge / audited table")
    chk.assume("panics inside luars, serde, regex, wax (external) are trusted; resource limits of the Lua sandbox are not decided")
    chk.assume("audit-style rule: a new panic-capable site that no recognised guard discharges is reported even if it happens to be safe")
    entries = [k for k, b in F.bodies.items()
               if k.startswith(CFG) and b.kind == "fn" and b.get("vis") == "pub" and "::_::" not in k and not k.endswith("json_schema")]
    chk.floor("config entry points", len(entries), 15)
    in_scope = lambda b: b.id.startswith(CFG) and "::_::" not in b.id and not b.id.endswith("::json_schema")
    n, rec, aud = panicsurface.audit(chk, F, "R31", "C31", entries, in_scope)
    chk.floor("panic-capable sites examined", n, 4)
    chk.explanation = ("Call-graph reachability from the configuration loading API, enumeration of panic-capable sites from MIR "
                       "(type-resolved Index impls, unwrap/expect, asserts), dominator-based guard recognition, audited table.")
