"""Pairing rule for the parser's shared nesting budget (used by C02 and C03).

LuaParser::enter_nesting() returns true after it has incremented the per-file depth counter; every path from that true edge
to a return of the calling function must pass leave_nesting() -- including `?` error exits.  A leaked level is never given
back: a file with enough malformed annotations (or deep-but-legal nesting after them) is then reported as "nested too deeply",
i.e. valid Lua gets syntax errors, and conversely a reset instead of a pairing lets recursion grow without bound.
"""
import cfgutil
import guards


def name(c):
    return c.get("r") or c.get("f") or ""


def check_pairing(chk, F, rule, prop):
    chk.rule(rule, "every successful enter_nesting() is matched by leave_nesting() on every path to a return of the same function (`?` exits included)")
    n = 0
    for b in F.bodies.values():
        if b.crate != "emmylua_parser" or "::test" in b.id:
            continue
        # forwarding wrappers (LuaDocParser::enter_nesting -> LuaParser::enter_nesting) are not users
        if b.id.endswith(("::enter_nesting", "::leave_nesting")):
            continue
        enters = [(bb, c) for bb, c in b.calls() if name(c).endswith("::enter_nesting")]
        if not enters:
            continue
        succ = b.succ_map()
        leaves = {bb for bb, c in b.calls() if name(c).endswith("::leave_nesting")}
        for bb, c in enters:
            n += 1
            key = "nesting-pair@%s" % b.id.replace("emmylua_parser::", "")
            br = guards.bool_branch(b, bb)
            start = br[0] if br else c["t"]
            p = cfgutil.paths_avoiding(succ, start, set(b.returns()), leaves)
            chk.check(p is None and bool(leaves), rule, key,
                      "%s can return after a successful enter_nesting() without leave_nesting() (for instance through a `?` on the guarded call): "
                      "the level is never given back, so later blocks and expressions of the file hit the nesting limit although the program is valid"
                      % b.id.split("::")[-1], b.loc(c["l"]), witness={"path_blocks": p},
                      sample={"rule": rule, "site": key, "verdict": "leave on every path"})
    chk.floor("enter_nesting call sites", n, 4)
    return n
