"""C37 (typestate, ordering and explicit-panic clauses of doc-comment markup highlighting).

R37a  typestate: every BacktrackPoint (whose Drop impl panics) is consumed by commit() or rollback() on every path: no Drop
      of a BacktrackPoint local is reachable from its creation without passing one of them.
R37b  the public entry parse() sorts its result on every path (items sorted, as consumers assume).
R37c  explicit panics (panic!/unreachable!/assert!) reachable from the public entry points are discharged by the audited table.
R37d  every indexing / slicing / drain site and every unsigned subtraction in the markup crate is discharged by a derived bounds
      fact or by an audited entry (tables/panic_audit.json, one reason per site): a NEW unguarded site is a violation.
"""
import bounds
import cfgutil
import panicsurface
from report import RuleBroken

CR = "emmylua_parser_desc"
BP = CR + "::util::BacktrackPoint"


def name(c):
    return c.get("r") or c.get("f") or ""


def run(chk, F, tier):
    chk.rule("R37a", "every BacktrackPoint is committed or rolled back on every path (its Drop panics)")
    chk.rule("R37b", "parse() sorts the items on every path")
    chk.rule("R37c", "explicit panics are discharged by the audited table")
    chk.assume("in-bounds-ness of the produced highlight ranges is value-level and NOT decided; the indexing/slicing/subtraction sites "
               "are decided only as far as R37d's derived facts and audited table go (a changed expression at an audited site is not seen)")
    nbp = 0
    for b in F.bodies.values():
        if b.crate != CR or "::test" in b.id or b.kind not in ("fn", "closure"):
            continue
        bps = [l for l in range(len(b.locals)) if b.local_ty(l)[1] == 0 and b.local_ty(l)[3] == BP]
        if not bps or b.id.startswith(BP):
            continue
        succ = b.succ_map()
        for l in bps:
            creates = []
            for bi, blk in enumerate(b.blocks):
                if blk[0]:
                    continue
                t = blk[2]
                if t[0] == "call" and t[1]["d"] == [l]:
                    creates.append(bi)
                for st in blk[1]:
                    if st[0] == "a" and st[1] == [l]:
                        creates.append(bi)
            if not creates:
                continue
            nbp += 1
            consume = set()
            for bi, blk in enumerate(b.blocks):
                t = blk[2]
                if t[0] == "call" and any(a[0] == "m" and a[1] == [l] for a in t[1]["a"]):
                    consume.add(bi)
                for st in blk[1]:
                    if st[0] == "a" and st[2][0] == "use" and st[2][1] == ["m", [l]]:
                        consume.add(bi)
            drops = {bi for bi, blk in enumerate(b.blocks) if not blk[0] and blk[2][0] == "drop" and blk[2][1] == [l]}
            bad = None
            for c0 in creates:
                p = cfgutil.paths_avoiding(succ, c0, drops, consume)
                if p is not None and len(p) > 1:
                    bad = p
            chk.check(bad is None, "R37a", "%s:_%d" % (b.id.replace(CR + "::", ""), l),
                      "a BacktrackPoint created in %s can go out of scope without commit()/rollback(): its Drop impl panics, so "
                      "some description text crashes the highlighter" % b.id.split("::")[-1], b.loc(),
                      witness={"path_blocks": bad},
                      sample={"rule": "R37a", "fn": b.id.split("::")[-1], "verdict": "consumed on every path"})
    chk.floor("BacktrackPoint locals", nbp, 5)
    # R37b
    p = F.bodies.get(CR + "::parse")
    if p is None:
        raise RuleBroken("emmylua_parser_desc::parse not found")
    srt = {bb for bb, c in p.calls() if name(c).endswith("::sort_result")}
    q = cfgutil.paths_avoiding(p.succ_map(), 0, set(p.returns()), srt)
    chk.check(bool(srt) and q is None, "R37b", "parse:sorted", "parse() can return items without sorting them", p.loc())
    # R37c
    entries = [k for k, b in F.bodies.items() if b.crate == CR and b.kind == "fn" and b.get("vis") == "pub" and "::test" not in k]
    skip = ("index", "unwrap", "expect", "str-slice", "slice-range", "vec-drain", "vec-insert", "vec-remove", "map-index", "index-other",
            "refcell", "split", "string-range", "string-insert", "string-remove", "string-truncate", "textrange-new", "rowan-offset", "rowan-range", "div", "slice-len")
    n, _, _ = panicsurface.audit(chk, F, "R37c", "C37", entries, lambda b: b.crate == CR and "::test" not in b.id, skip_kinds=skip)
    chk.floor("explicit panic sites", n, 6)
    run_r37d(chk, F)
    chk.explanation = "Typestate must-consume check for BacktrackPoint on the CFG (creation -> Drop avoiding commit/rollback), must-pass-through for sort_result, audit of explicit panics, " \
                      "bounds/underflow audit of every index, slice, drain and unsigned subtraction in the crate."


def run_r37d(chk, F):
    from rules import c12c
    n, rec, aud = c12c.bounds_audit(chk, F, "R37d", "C37", CR, "the markup crate", "the highlighter panics")
    chk.floor("bounds-sensitive sites in the markup crate", n, 60)
    nsub, _, _ = c12c.uint_sub_audit(chk, F, "R37d", "C37", CR, "the markup crate", "the highlighter panics or emits an out-of-range item")
    chk.floor("unsigned subtractions in the markup crate", nsub, 20)
