"""Which properties are claimed, by which rule module, at which level (see DESIGN.md section 5)."""
CA = ["emmylua_code_analysis"]

NOT_APPLICABLE = {
    "C06": "Idempotence is an equation between two runs of a width-driven pretty-printer over all inputs; no structural necessary condition exists (the formatter legitimately reads source line breaks), a taint rule would alarm on correct code.",
    "C13": "Scope selection is position arithmetic over runtime scope trees (cut-offs, repeat/for special cases); agreement with Lua's scoping needs an oracle run per program, which is not static analysis.",
    "C14": "Set equality between rename edits, references and name resolution per program; sharing a helper is neither necessary nor sufficient, so no code-shape clause decides it.",
    "C15": "Soundness of narrowing against executed values needs an execution oracle; no code-shape clause implies it.",
    "C16": "Reflexivity/union/inheritance laws quantify over generated types; the hand-mirrored fast path vs pairwise rules is a semantic equivalence, not a shape property.",
    "C17": "Render-then-reparse equality over generated types; precedence bugs are value-level.",
    "C18": "Correct substitution for every argument type is a semantic equation over instantiation.",
    "C36": "Exit status and report contents 'exactly equal' the filtered diagnostics: value-level; the only shape facts would restate the 60-line function and miss the realistic mutants.",
}

# claimed in DESIGN.md but whose check is not built yet (kept out of `checks` until it exists)
PENDING = {}

PROPS = {
    "C08": dict(
        module="idx", func="run_c08", level="other", crates=CA,
        technique="interprocedural field write-set analysis over MIR + CFG must-pass-through (removal coverage, delegation, call order)",
        text="Decides a necessary structural clause: every index field that any mutating method can populate is "
             "reachable by remove(file_id) (or is an audited id-allocator/configuration field), DbIndex::remove "
             "reaches every index on every path, and update entry points drop old facts before re-deriving. "
             "Exhaustive over all 15 LuaIndex implementors and their ~90 mutating methods; it is the clause that the "
             "'new map filled on add but forgotten in remove' family of regressions violates. Path-sensitive additions: FileId-keyed maps (R08d) and maps whose values list FileIds (R08i) are reached on every path of remove on which the file was indexed; InFiled entries are filtered per iteration (R08e); reverse maps are complete (R08f); emptied inner collections are pruned under the key that was emptied (R08h); no id derives from a shrinking length (R08g).",
        note="Decides coverage of state by removal, not that the pruning logic inside each remove() is correct "
             "(description loss / module-node leak quoted in the property are value-level logic). Trusted: rustc MIR, "
             "emmyfacts extraction, the exemption table in rules/idx.py (one reason per field); assumes shared borrows do not write."),
    "C09": dict(
        module="idx", func="run_c09", level="other", crates=CA,
        technique="interprocedural field write-set analysis over MIR + CFG must-precede (clear coverage, reindex order)",
        text="Decides the clause 'no index field survives clear()': every field any mutating method can populate is "
             "reset by clear (exempt only configuration mirrors/workspace roots), DbIndex::clear reaches every index, "
             "and reindex = take full Vfs file list -> clear -> update_index(that list). Exactly the 'new index field "
             "that clear forgets' regression named in the property; found two genuine omissions (both fixed). R09e: the file list reindex re-adds is in ascending id order (an enumerate over the id-indexed file_data, or sorted), the order a fresh analysis saw. R09f: setters of the configuration mirrors that clear() keeps write them on every path (no 'unchanged, skip' exit).",
        note="Does not decide observable equality of a reindexed and a fresh analysis. Trusted: rustc MIR, emmyfacts, "
             "exemption table with reasons in rules/idx.py."),
    "C10": dict(
        module="idx", func="run_c10", level="other", crates=CA,
        technique="field write-set analysis + CFG must-pass-through on the removal path",
        text="Decides that removal reaches every per-file store: index removal coverage and delegation (as C08), "
             "remove_file_by_uri = Vfs::remove_file then remove_index before reporting success, and Vfs::remove_file "
             "writes every per-file field of Vfs.",
        note="Does not decide cross-file liveness logic inside remove() bodies or memory release. Trusted as C08."),
    "C38": dict(
        module="c38", func="run", level="proof", crates=None,
        technique="trait-solver obligations (Send/Sync/auto traits per field) extracted by the rustc driver + capture/await-liveness scan on coroutine MIR + containment walk for interior mutability under the shared analysis",
        text="Proves, with the compiler's own trait solver, that every `unsafe impl Send/Sync` on shared state is "
             "redundant (each field type is Send/Sync by auto-trait rules) and that all components of the shared "
             "roots (EmmyLuaAnalysis, everything inside Arc/RwLock/Mutex of the server context) are Send+Sync on their "
             "own; the one type whose assertion is not redundant (SemanticModel) is shown never to be captured by a "
             "spawned task nor live across an await. A future Rc/RefCell/rowan-cursor field anywhere under the analysis "
             "compiles silently today and is reported here. R38c adds the containment walk behind the 'equal to sequential' "
             "clause: no type contained in the shared analysis has an interior-mutable field (Mutex/RwLock/atomics/cells), and "
             "the analysis crates have no mutable statics beyond the write-once i18n backends, so `&self` queries cannot write "
             "anything another query reads.",
        note="Does not decide equality of concurrent and sequential results beyond that necessary condition, nor races inside "
             "dependencies. Trusted: rustc trait solver, emmyfacts, the per-thread table (1 entry) and the audited statics (3) in rules/c38.py."),
    "C26": dict(
        module="c26", func="run", level="other", crates=["emmylua_ls"],
        technique="table evaluation from MIR (match arms, vec! literals, const items) and entry-by-entry agreement; value-source analysis of token record fields; presence of an end-of-previous-token comparison in the builder",
        text="Decides the legend clause exhaustively: for every token kind the index sent on the wire selects, in the registered "
             "legend, exactly the LSP type the kind stands for; every modifier bit i is legend entry i; the registered "
             "legend is built from these tables. Exhaustive over the finite tables (24 kinds, 10 modifiers). Two structural "
             "premises of 'ordered, non-overlapping, in-document tokens' are decided as well: token columns and lengths are both "
             "character counts from get_line_col (R26e), and the builder has an overlap filter at all (R26f -- it has none: open finding).",
        note="The legend agreement is proved; R26e/R26f are necessary conditions only. Symbol nesting, folding/selection ranges, "
             "completion edits and edit overlap are data dependent and not decided. Trusted: rustc MIR, emmyfacts, "
             "enum discriminants = declaration order for a fieldless enum without explicit discriminants."),
    "C39": dict(
        module="c39", func="run", level="other", crates=["emmylua_formatter", "luafmt"],
        technique="who-may-call + interprocedural path provenance (backward dataflow through closures/helpers) + CFG must-precede",
        text="Decides the atomic-replace discipline that makes the property hold at every crash point: no truncating "
             "write API ever receives a path that may be a collected input file; input files are only replaced by "
             "rename from a derived temporary that was completely written, checked and flushed on every path to the "
             "rename. Found the in-place fs::write (fixed in 2c9b877).",
        note="Static ordering/provenance argument; rename(2) atomicity and the meaning of the std::fs APIs are trusted. "
             "Durability across power loss is not claimed. Path-deriving APIs (join/with_extension/..) are assumed to name a different file."),
    "C20": dict(
        module="c20", func="run", level="other", crates=["emmylua_code_analysis"],
        technique="constant propagation of enum discriminants through per-checker call trees + registration table + CFG dominance / guard-edge analysis",
        text="Decides the gating structure every configuration outcome depends on: (a) each checker can only emit codes "
             "listed in its CODES (else `enables` cannot run it), exhaustively over all 41 checkers and ~190 report sites; "
             "(b) every checker registered once, every code claimed; (c) a single gated constructor for diagnostics whose "
             "push is unreachable from the false edges of the enable and suppression tests, severity from config first; "
             "(d) diagnose_file cannot reach the checkers when disabled or for non-main workspaces, and the precedence chain "
             "holds as path-order constraints; (e) undefined-global consults globals/globalsRegex.",
        note="Per-program outcomes are not decided. Trusted: rustc MIR, emmyfacts, call-graph over-approximation (trait fan-out)."),
}

PROPS["C24"] = dict(
    module="c24", func="run", level="other", crates=["emmylua_ls"],
    technique="CFG must-pass-through / at-most-once on coroutine MIR + feasible-path enumeration with send counting + panic-site scan",
    text="Decides the response discipline of the dispatch code on every path: each dispatch arm and the fallback pass "
         "exactly one responder; the request task sends exactly one Response on every feasible path and isolates the "
         "handler future from unwinding; requests arriving during initialization are queued and replayed; no panic site "
         "or silent return sits between initialize_start and initialize_finish. Exhaustive over all 38 arms.",
    note="Decides the dispatch/wrapper code only; behaviour of the lsp-server crate on stdio and panics inside handlers "
         "(C25) are outside. Trusted: rustc coroutine MIR (pre-transform), emmyfacts, Option/Result variant feasibility filter.")

PROPS["C27"] = dict(
    module="c27", func="run", level="other", crates=["emmylua_ls"],
    technique="write-set + call-graph reachability to find document-text mutators; dispatch-coroutine MIR (inline await vs tokio::spawn); must-pass-through of update_file_by_uri after sync_open_file with provenance-checked filter branches",
    text="Decides the ordering-domain clause: every notification handler that can mutate the per-document text "
         "state is awaited inline on the single message loop, so their effects are applied in message order; "
         "a handler of that set dispatched through tokio::spawn is reported. R27b: in didOpen/didChange every path from "
         "recording the text to the end of the handler hands it to update_file_by_uri, except through the workspace filter branch. R27d: no future spawned from such a handler takes the analysis write lock (its effect on the analysis is applied inline). R27e: the watched-files handler tests is_open_file and updates the analysis under one acquisition of the analysis write lock.",
    note="Interleavings inside one handler and with reload tasks are not decided (C28/C29). Trusted: rustc coroutine MIR, "
         "emmyfacts, call-graph over-approximation.")

PROPS["C28"] = dict(
    module="c28", func="run", level="other", crates=["emmylua_ls", "emmylua_check", "emmylua_doc_cli"],
    technique="lock-order analysis: guard liveness dataflow on coroutine MIR, interprocedural acquires() summaries, SCCs of held->acquired",
    text="Decides the three structural clauses of the statement for every task body in the server: the held->acquired "
         "relation over lock objects is acyclic (one global order), no lock is re-acquired while held, no blocking std guard "
         "lives across an await. Sound over the analysed bodies for deadlocks that consist of lock waits only.",
    note="Liveness under starvation and deadlocks through channels/JoinHandles are not decided. Trusted: rustc coroutine MIR, "
         "emmyfacts, lock identity = guarded type (table of lock fields printed in evidence).")

PROPS["C11"] = dict(
    module="c11", func="run", level="other", crates=None,
    technique="interprocedural hash-order taint analysis (backward, use-site aware, sort sanitizers) over MIR",
    text="Decides the clause 'no hash-seed dependent order reaches the sequences that drive the analysis': every file "
         "list handed to update_index/remove_index/analyze, the context order of module_analyze, get_best_analysis_order "
         "and the Vfs/module-index file enumerations are shown free of hash-iteration order, at every call site in the "
         "workspace. Unlike clippy's iter_over_hash_type it sees hashbrown containers and follows the order to the sinks.",
    note="Order dependence inside the index and thread timing are not decided. Trusted: rustc MIR, emmyfacts, the source/"
         "sanitizer tables in lib/hashorder.py, one audited exception (module_analyze main_vec) with its value-level reason.")

PROPS["C05"] = dict(
    module="fmtguard", func="run_c05", level="other", crates=["emmylua_formatter", "emmylua_ls", "luafmt", "emmylua_check"],
    technique="CFG dominance + guard-edge analysis at every call site of the formatter core, obligations propagated through wrappers",
    text="Decides the clause 'input with syntax errors is returned unchanged': every call path into formatter::format_chunk "
         "passes a has_syntax_errors test whose error edge cannot reach the formatter (library entries, luafmt, the LSP handlers).",
    note="Only this clause is decided: token-sequence/comment preservation and configured normalisations are value-level "
         "properties of the re-rendering and are not decided. Trusted: rustc MIR, emmyfacts.")
PROPS["C07"] = dict(
    module="fmtguard", func="run_c07", level="other", crates=["emmylua_formatter", "emmylua_ls", "luafmt", "emmylua_check"],
    technique="CFG dominance + guard-edge analysis at every call site of the range-format core and every fragment re-parse",
    text="Decides the syntax-error guard clause for range formatting: every path into reformat_range_in_chunk has tested the "
         "tree for syntax errors, and every re-parse inside the range formatter is tested before its tree is used.",
    note="That the replaced region covers the selection, dedent/re-indent and token preservation after splicing are not decided.")

PROPS["C19"] = dict(
    module="c19", func="run", level="other", crates=["emmylua_code_analysis"],
    technique="call-graph reachability + use-classification of TextRange::intersect results (API misuse rule); key-type check of lookups on the suppression path; CFG dominance of the get_code_list()==None edge over every DisableAll construction",
    text="Decides the half-open matching clause: on every function reachable from the suppression test, no range predicate "
         "treats an empty (touching) intersection as overlap. This is the structural root of 'a diagnostic at column 0 below "
         "the suppressed line is hidden too'. Also decides two code-scope clauses: the suppression decision never goes through a "
         "position-keyed lookup that lacks the diagnostic code (R19b: other codes are unaffected), and 'suppress every code' is only "
         "built when the comment has no code list at all (R19c). R19d: the range recorded for a block-scoped disable is the enclosing LuaBlock's own range (provenance of the range operand).",
    note="The construction of each directive's range (+1 line, block range, file scope) is position arithmetic and is not decided.")

PROPS["C23"] = dict(
    module="c23", func="run", level="other", crates=["emmylua_parser", "emmylua_ls", "emmylua_code_analysis"],
    technique="declared-vs-implemented agreement: callee sets of the column functions vs capability registration; byte-constant table of LineIndex::parse",
    text="Decides whether the unit the server implements for `character` equals the encoding it declares to the client, and "
         "whether its line-terminator set equals the protocol's. Both disagree on the pinned tree (two open known findings); "
         "the rule passes once either side is changed to agree and fires again on regression.",
    note="Does not decide the arithmetic of the conversions (C22 decides only the guard and clamp-provenance clauses). Trusted: rustc MIR, emmyfacts.")

PROPS["C41"] = dict(
    module="c41", func="run", level="other", crates=["emmylua_code_analysis"],
    technique="return-value provenance on MIR restricted to paths through the body binder (CFG reachability + copy roots)",
    text="Decides for every loop construct whether the flow that continues after the loop can be the pre-loop flow although the "
         "body was bound, i.e. whether narrowing after the loop can ignore the body. Three of the four binders do so by design on "
         "the pinned tree (open known findings, each with the failing program); repeat-until satisfies the rule.",
    note="Type-level soundness of the merge is not decided. Trusted: rustc MIR, emmyfacts; binders are found by signature.")

PROPS["C21"] = dict(
    module="c21", func="run", level="other", crates=["emmylua_parser", "emmylua_code_analysis"],
    technique="table agreement between t! call sites recovered from MIR and the locale files + loop must-pass-through in SyntaxErrorChecker + value-source analysis of translate_range components and of the branch conditions of get_file_parse_error",
    text="Decides two clauses: (a) every translated diagnostic/parse message is fully rendered in every locale (placeholders of the "
         "key and of each translation are supplied at the call site), exhaustively over all t! sites of the parser and the "
         "analysis crate; (b) every parse error of a file is forwarded as a diagnostic with its own range and message, and "
         "codes/severities come from the single constructor; the list handed to the checker is the tree's whole error list (R21e: "
         "get_file_parse_error returns None only for a missing tree or an empty get_errors()); (c) every line/column of a published "
         "range is taken from LuaDocument::get_line_col alone (R21d).",
    note="Start<=end for arbitrary checkers' byte ranges and duplicates are not decided. Trusted: rustc MIR, emmyfacts, PyYAML.")

PROPS["C03"] = dict(
    module="c03", func="run", level="other", crates=["emmylua_parser"],
    technique="table evaluation from MIR (feature sets per language level, keyword strings) compared with reference tables",
    text="Decides the table-agreement clause: the per-level feature sets (what syntax each Lua version accepts) and the lexer's "
         "reserved-word table equal the reference manuals' tables; a dropped or misplaced set.add(..) or a misspelt keyword is reported.",
    note="Language equivalence with reference Lua (literals, escapes, statement grammar) needs a reference implementation as oracle "
         "and is not decided. The reference tables in rules/c03.py are part of the trusted base.")

PROPS["C04"] = dict(
    module="c04", func="run", level="other", crates=["emmylua_parser", "emmylua_code_analysis", "emmylua_formatter", "emmylua_ls"],
    technique="who-may-call + call-graph reachability with static-reference scan + argument provenance",
    text="Decides that LuaParser::parse is a function of its arguments plus one trusted interning cache: the cache is only "
         "constructed and handed to rowan's builder, no code reachable from the parser references mutable/interior-mutable/"
         "thread-local statics, and the Vfs feeds the parser only the new text and configuration.",
    note="Sufficient-condition argument: a new channel is reported even if it were transparent. Trusted: rowan's cache transparency, "
         "external crates' global state (rust-i18n, log) is configuration.")

PROPS["C31"] = dict(
    module="c31", func="run", level="other", crates=["emmylua_code_analysis"],
    technique="panic-surface audit: call-graph reachability + type-resolved panic-site enumeration + dominator-based guard recognition + audited table",
    text="Decides that no undischarged panic-capable construct sits on the configuration loading path: every unwrap/expect, "
         "index/slice and serde_json::Value index reachable from the loading API is guarded (recognised idiom), covered by API "
         "knowledge, or listed in the audited table with its invariant. Found the two panics quoted in the property (both fixed).",
    note="Audit-style: proves nothing about sites in the audited table beyond the recorded reason; panics inside external crates "
         "(luars, serde, regex) and sandbox resource limits are outside. A new unguarded site is reported even if it happens to be safe.")

PROPS["C32"] = dict(
    module="c32", func="run", level="other", crates=["emmylua_code_analysis"],
    technique="hash-order taint of loop iterators that drive keyed writes into the merged JSON configuration",
    text="Decides the determinism clause: no loop that writes the resulting configuration iterates in hash order, so colliding "
         "keys (flat vs nested spelling, value vs prefix) resolve the same way in every run. Found the hash-ordered rebuild in "
         "to_emmyrc_json (fixed together with the C31 panic). R32b: every configuration handed to merge_values went through FlattenConfigObject::parse(..).to_emmyrc() on every path of the normalising closure; R32c: no conditional collection of parsed configs.",
    note="'Later file wins whichever spelling each file uses' and array de-duplication are value-level semantics and not decided.")

PROPS["C33"] = dict(
    module="c33c35", func="run_c33", level="other", crates=["emmylua_code_analysis"],
    technique="hash-order taint of module-lookup return values",
    text="Decides the determinism clause of require resolution: whichever module a lookup returns, the choice among candidates "
         "never derives from hash-iteration order.",
    note="Pattern matching, module-map rewriting, exact-before-fuzzy precedence and removal are not decided.")
PROPS["C35"] = dict(
    module="c33c35", func="run_c35", level="other", crates=None,
    technique="hash-order taint of exported lists + presence of the main-workspace filter",
    text="Decides the reproducibility and scope clauses of the JSON documentation export: no exported list carries hash-iteration "
         "order, and each top-level list is filtered to the main workspace.",
    note="'Exactly once' and completeness of the documentation are not decided.")

PROPS["C29"] = dict(
    module="c29c30", func="run_c29", level="other", crates=["emmylua_ls", "emmylua_code_analysis"],
    technique="CFG must-precede / must-pass-through on the reload functions + held-lock analysis at the reload call",
    text="Decides three ordering facts without which a reload overwrites editor text or two reloads interleave: disk batch "
         "filtered by and applied before the open files; apply_workspace_reload only under reload_lock after the generation test "
         "and from a single caller; reconciliation after init_analysis on every path with the snapshot taken before, loop exit only "
         "on an unchanged snapshot version.",
    note="Convergence under interleavings of notifications with the reload (the version loop against concurrent sync/close) is a "
         "scheduling property and is not decided.")
PROPS["C30"] = dict(
    module="c29c30", func="run_c30", level="other", crates=["emmylua_ls", "emmylua_code_analysis"],
    technique="siblings cross-check: forward CFG reachability from every removal call to the diagnostics-clear call; must-pass-through of the publishing call after every successful diagnose_file in the push tasks; loop/provenance check that cancellation tokens are created per inserted file id",
    text="Decides the second sentence of the property: every place where the server removes a file from the analysis reaches "
         "clear_push_file_diagnostics for it. The majority discipline (6 of 8 sites) defines the rule; the deviants are reported. "
         "For the first sentence it decides two structural premises: a diagnosis computed by a push task always reaches "
         "publish_diagnostics (R30b), and no cancellation token is shared between file ids (R30c).",
    note="Which task runs last under a given timing (latest published set equals a fresh diagnosis once debounce timers settle) "
         "is interleaving dependent and is not decided.")

PROPS["C25"] = dict(
    module="c25", func="run", level="other", crates=["emmylua_ls", "emmylua_code_analysis", "emmylua_formatter"],
    technique="taint (client-derived offsets) + CFG dominance of a bounds comparison at every rowan API with a range precondition; siblings cross-check; call-graph scoped audit of range-precondition sites (TextRange::new/at, TextSize subtraction, str range indexing) with ordering/char-boundary guard recognition; bounds-fact derivation for index/slice sites in the same scope",
    text="Decides the precondition-guard clause: every handler that feeds a client-derived offset/range to a rowan API that panics "
         "on out-of-range input first compares it with the document's end (the idiom 12 handler files already use; the deviants "
         "are reported), and to_rowan_range rejects reversed ranges. R25c: every TextRange::new/at, TextSize subtraction and str range "
         "indexing reachable from the 19 position-taking handlers (emmylua_ls + emmylua_formatter) is ordered/char-boundary safe by a "
         "recognised guard or by an audited entry. R25d: every Vec/slice index, split_at, remove/insert/drain in emmylua_ls code reachable "
         "from those handlers is in bounds by a derived fact (51 of 66 today) or an audited entry.",
    note="Semantic crashes deeper inside a handler (analysis-crate code, unwrap/expect) are outside this rule. Trusted: rowan's documented preconditions, the source/guard tables in rules/c25.py, tables/panic_audit.json.")

PROPS["C40"] = dict(
    module="c40", func="run", level="other", crates=["schema_to_emmylua", "emmylua_parser"],
    technique="panic-surface audit + fmt-template decoding from MIR with provenance/sanitiser analysis of values in quoted positions + who-may-write",
    text="Decides two clauses: the converter has no undischarged panic site, and every schema-derived string placed inside double "
         "quotes or on a one-line `# ` comment of the generated annotations passes a sanitiser that handles quote, backslash and "
         "newline (otherwise the output does not parse); only emitter methods write the output.",
    note="That the emitted text declares the reported root type is not decided. Sanitisers are recognised semantically (functions "
         "returning String whose bodies mention the characters they must neutralise).")

PROPS["C01"] = dict(
    module="c01", func="run", level="other", crates=["emmylua_parser"],
    technique="effect abstract interpretation of the marker protocol over MIR (least-fixpoint outcome sets per grammar function), who-may-call on the event vector",
    text="Decides the structural conditions under which the event stream fed to the green-tree builder is balanced for every "
         "input: marker primitives are level-exact (making both error-repair sites exact), all 150+ grammar functions are balanced on "
         "every non-error path, leaking errors are only ever propagated to a repair site, the event vector is append-only, and "
         "EOF is not an in-band character. Found the level leak of Marker::undo / empty complete (fixed) and the NUL sentinel (open finding).",
    note="Not decided: that lexer token ranges tile the text, that trivia tokens are all forwarded, doc-lexer re-lexing ranges "
         "(index arithmetic). Path feasibility uses Result-variant knowledge only. Trusted: rustc MIR, emmyfacts.")

PROPS["C02"] = dict(
    module="c02", func="run", level="other", crates=["emmylua_parser"],
    technique="progress (must-consume) summaries + natural-loop cycle search, call-graph SCCs with left-recursion and depth-guard tests, "
              "enter/leave nesting pairing on the CFG, explicit-panic audit, bounds-fact derivation over MIR for every index/slice/"
              "subtraction site reachable from the parse entry points with an audited remainder",
    text="Decides the structural termination and crash conditions of the parser: every loop of lexer/parser/grammar progresses on every "
         "cycle (three loops audited with their argument); every recursive cycle of the grammar passes a depth guard (enter_nesting, "
         "paired with leave_nesting on every path; the missing guards were repaired, see known_findings.json); explicit panics are "
         "discharged; every index / slice / drain site and unsigned subtraction reachable from LuaParser::parse is discharged by a "
         "derived bounds fact or an audited per-site invariant (R02f).",
    note="Not decided: linear-time complexity, allocation failure, termination of the lexers' own loops (value-level: each lex call "
         "consumes a character), absence of left recursion (needs token-kind correlation; listed as informational), unwrap/expect "
         "sites, and a changed expression at an already-audited site. Trusted: the 43 audited reasons of R02f in tables/panic_audit.json; "
         "five of them rest on the parser invariant 'bump() is never called at TkEof', which was read and probed but is not proven by a rule.")

PROPS["C12"] = dict(
    module="c12", func="run", level="other", crates=["emmylua_code_analysis"],
    technique="call-graph SCC classification (name-lookup carriers vs guard operations) + opt-in clippy lints enforced on the library target + intraprocedural bounds-fact derivation over MIR (dominating comparisons, iteration variables) for every index/slice site with an audited remainder",
    text="Decides two crash clauses for the analysis crate: every recursive component that follows type names through the index "
         "(the only recursion carrier that can be cyclic at run time) contains a recursion guard or is audited as purely "
         "structural; and the crate's own panic lints (unwrap/panic) hold for all library code (nothing else ever runs clippy). "
         "R12c: each of the ~250 index / slice / positional Vec-String operations of the crate is in bounds by a fact the checker derives "
         "from the MIR (comparison with len() on a dominating edge, range/enumerate iteration variable, non-empty test, find position) or "
         "by a hand-audited entry with its reason. R12d: every call that enters a memoising graph search (recursive function inserting "
         "into a `&mut HashSet` it carries; 17 with wrappers) passes a set created or cleared right before the call, inside the same "
         "loop / per-element closure -- the cycle filter of the type index depends on it.",
    note="Guard presence is per component, not per cycle. Arithmetic panics and the time bound of guarded fixpoints are not decided; "
         "audited entries are blind to later edits of the audited function's logic. Trusted: clippy, the guard and carrier tables in "
         "rules/c12.py, tables/panic_audit.json.")

PROPS["C37"] = dict(
    module="c37", func="run", level="other", crates=["emmylua_parser_desc"],
    technique="typestate (must-consume) check on the CFG for a panicking-Drop guard type + must-pass-through + explicit-panic audit "
              "+ bounds/underflow site audit (derived bounds facts, else a frozen per-site table) over the markup crate's MIR",
    text="Decides four structural clauses of 'highlighting is total and in order': every BacktrackPoint (Drop panics) is committed "
         "or rolled back on every path of every markup parser function, the public entry sorts its items on every path, the "
         "explicit panics are discharged by audited invariants, and every index / slice / drain site and unsigned subtraction of the "
         "crate is discharged by a derived bounds fact or an audited per-site invariant (a new unguarded site is reported).",
    note="NOT decided: that produced ranges lie inside the description; a changed expression at an already-audited site (the table is "
         "keyed by function, kind and ordinal, not by content). Trusted: rustc MIR (pre-drop-elaboration Drop terminators), emmyfacts, "
         "the 85 audited reasons in tables/panic_audit.json (read against the code, block contracts of the rst/markdown line parsers).")

PROPS["C22"] = dict(
    module="c22", func="run", level="other", crates=["emmylua_parser", "emmylua_code_analysis"],
    technique="CFG dominance of the line lookup + provenance of the column clamp bound (whole text vs the line's content) + bounds-fact audit of LineIndex",
    text="Decides three structural clauses of position conversion: a position on a missing line converts to nothing (the line-start lookup "
         "dominates everything else and is itself bounds-tested), a column past the end of its line is clamped by that line's own content "
         "(not by the length of the whole text or an open-ended tail of it), and no index/slice of LineIndex can go out of range.",
    note="The round trip offset -> position -> offset and the exact clamped value are integer arithmetic over runtime line tables and are "
         "not decided (that would need an interval/relational proof, another technique family). Trusted: rustc MIR, emmyfacts, lib/bounds.py.")

PROPS["C34"] = dict(
    module="c34", func="run", level="other", crates=["emmylua_code_analysis", "emmylua_ls", "emmylua_check", "emmylua_doc_cli"],
    technique="callee / receiver-type scan of the Vfs id lookups + inventory of uri-keyed containers from ADT facts (who-may-key rule)",
    text="Decides the second sentence of the property: a file is identified by its percent-decoded path -- Vfs::file_id and get_file_id go "
         "through uri_to_file_path and a PathBuf-keyed map -- and no other store of per-file state in the analysis or the server is keyed by the "
         "uri text (3 audited exceptions). R34c, a necessary condition of the first sentence: uri_to_file_path percent-decodes Url::path() exactly once on every path and file_path_to_uri encodes through Url::from_file_path only.",
    note="The first sentence (path -> uri -> path is the identity for all normalized paths, including spaces, %, #, ? and non-ASCII) is "
         "value-level behaviour of the url crate and percent-decoding and is not decided. Trusted: emmyfacts ADT facts, the audited table in rules/c34.py.")
