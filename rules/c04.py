"""C04: no cross-parse state channel.

R04a  values of rowan's NodeCache are only created (default/new) and handed to GreenNodeBuilder::with_cache; no other
      NodeCache API is called anywhere in the workspace (the cache is a semantically transparent interning table).
R04b  no function reachable from LuaParser::parse / LuaDocParser / the lexers references a mutable static, a static
      with interior mutability or a thread local of the workspace (allow-list: rust-i18n's generated back-end statics
      and the `log` facade, which are configuration).
R04c  Vfs::set_file_content / set_remote_file_content hand LuaParser::parse only the new text and a config derived
      from emmyrc + the node cache.
"""
import callgraph
import dataflow
import prov
from report import RuleBroken

P = "emmylua_parser::"
ENTRY = P + "parser::lua_parser::LuaParser::parse"
ALLOWED_STATICS = ("_RUST_I18N_BACKEND", "rust_i18n", "log::", "_rust_i18n")


def name(c):
    return c.get("r") or c.get("f") or ""


def static_refs(b):
    out = []

    def walk(x):
        if isinstance(x, list):
            if len(x) >= 3 and x[0] == "k" and x[1] == "static":
                out.append((x[2], bool(x[4]) if len(x) > 4 else False))
            elif len(x) >= 2 and x[0] == "tls":
                out.append((x[1], True))
            else:
                for y in x:
                    walk(y)
        elif isinstance(x, dict):
            for y in x.values():
                walk(y)
    for blk in b.blocks:
        if blk[0]:
            continue
        walk(blk[1])
        walk(blk[2])
    return out


def run(chk, F, tier):
    chk.rule("R04a", "NodeCache values only reach GreenNodeBuilder::with_cache; no other NodeCache API is used")
    chk.rule("R04b", "no mutable / interior-mutable / thread-local static is referenced by code reachable from the parser entry points")
    chk.rule("R04c", "Vfs hands LuaParser::parse only the new text and a config built from emmyrc + node cache")
    chk.assume("rowan's NodeCache is semantically transparent (structural interning of kind+text+children)")
    chk.assume("sufficient-condition argument: a new channel is reported even if it happened to be transparent")
    chk.assume("global state inside external crates other than rowan is not analysed (rust-i18n/log are configuration)")
    if ENTRY not in F.bodies:
        raise RuleBroken("LuaParser::parse not found")
    # R04a
    n_nc = 0
    for b in F.bodies.values():
        for bb, c in b.calls():
            n = name(c)
            if "NodeCache" in n.split("<")[0] or n.startswith("rowan::green::node_cache"):
                n_nc += 1
                ok = n.endswith("::default") or n.endswith("NodeCache::new") or "Default>::default" in n
                chk.check(ok, "R04a", "%s@%s" % (n.split("::")[-1], b.id),
                          "%s calls %s: the interning cache is read or manipulated outside the green-tree builder" % (b.id, n), b.loc(c["l"]),
                          sample={"rule": "R04a", "site": b.id, "api": n, "verdict": "construction only"})
            if n.endswith("GreenNodeBuilder::with_cache"):
                n_nc += 1
                chk.ok("R04a", "with_cache@%s" % b.id, {"rule": "R04a", "site": b.id, "verdict": "cache handed to rowan's builder"})
    chk.floor("NodeCache API sites", n_nc, 2)
    # R04b
    cg = callgraph.CallGraph(F)
    entries = [ENTRY] + [x for x in F.bodies if x.endswith("LuaDocParser::parse") or x.endswith("LuaLexer::tokenize")]
    reach = [x for x in cg.reachable(entries) if x in F.bodies]
    chk.floor("functions reachable from the parser", len(reach), 300)
    wstat = F.statics
    nref = 0
    for bid in sorted(reach):
        b = F.bodies[bid]
        for path, is_mut in static_refs(b):
            nref += 1
            rec = wstat.get(path)
            bad = is_mut or (rec is not None and (rec.get("mut") or rec.get("freeze") is False or rec.get("tls")))
            allowed = any(a in path for a in ALLOWED_STATICS)
            chk.check((not bad) or allowed, "R04b", "%s@%s" % (path.split("::")[-1], bid),
                      "%s (reachable from LuaParser::parse) references the mutable/interior-mutable static %s: a parse can "
                      "observe state left by an earlier parse" % (bid, path), b.loc(),
                      sample={"rule": "R04b", "static": path, "site": bid, "verdict": "immutable or allow-listed configuration"})
    chk.unit("static references in parser code", nref)
    # positive control: the matcher sees static references at all somewhere in the workspace
    total = sum(len(static_refs(b)) for b in F.bodies.values())
    chk.check(total >= 1, "R04b", "matcher-sees-statics", "no static reference found anywhere: the extractor lost them", None)
    # R04c
    for fn in ("set_file_content", "set_remote_file_content"):
        b = F.bodies.get("emmylua_code_analysis::vfs::Vfs::" + fn)
        if b is None:
            raise RuleBroken("Vfs::%s not found" % fn)

        def src(bb_, r):
            if r[0] == "place" and r[1] == 1:
                fs = [e[2] for e in r[2] if isinstance(e, tuple) and e[0] == "f"]
                if fs:
                    return {("SELF", fs[0])}
            if r[0] == "arg":
                return {("ARG", r[1])}
            return None
        Pv = prov.Prov(F, source=src)
        seen = False
        for bb, c in b.calls():
            if name(c) == ENTRY:
                seen = True
                labs = set()
                for a in c["a"]:
                    labs |= {l for l in Pv.operand_labels(b, a) if l[0] in ("SELF", "ARG")}
                fields = {l[1] for l in labs if l[0] == "SELF"}
                chk.check(fields <= {"emmyrc", "node_cache"}, "R04c", "%s:parse-inputs" % fn,
                          "Vfs::%s feeds LuaParser::parse from Vfs state %s besides emmyrc/node_cache" % (fn, sorted(fields)), b.loc(c["l"]),
                          witness={"labels": sorted(map(str, labs))},
                          sample={"rule": "R04c", "fn": fn, "vfs_fields_used": sorted(fields), "verdict": "only config + cache"})
        chk.check(seen, "R04c", "%s:calls-parse" % fn, "Vfs::%s no longer calls LuaParser::parse" % fn, b.loc())
    # R04d: the configuration a parse is derived from carries no memo
    chk.rule("R04d", "the types the parser configuration is computed from (Emmyrc and everything it contains, ParserConfig) have no interior-mutable "
                     "field: a lazily filled cell would survive `clone()` + edit and make the tree depend on what was parsed before")
    INTERIOR = ("Mutex<", "RwLock<", "RefCell<", "::Cell<", "::atomic::Atomic", "OnceCell<", "OnceLock<", "LazyLock<", "LazyCell<", "UnsafeCell<")
    todo = ["emmylua_code_analysis::config::Emmyrc", "emmylua_parser::parser::parser_config::ParserConfig"]
    seen_adts = set()
    nf = 0
    while todo:
        path = todo.pop()
        if path in seen_adts:
            continue
        seen_adts.add(path)
        adt = F.adts.get(path)
        if adt is None:
            continue
        types = adt["_types"]
        for v in adt["variants"]:
            for f in v["fields"]:
                nf += 1
                fty = types[f["ty"]]
                hit = [x for x in INTERIOR if x in fty[0]]
                # ParserConfig legitimately borrows the interning cache (`&mut NodeCache`), which R04a covers
                chk.check(not hit, "R04d", "%s.%s" % (path.split("::")[-1], f["name"]),
                          "field `%s: %s` of %s is interior-mutable (%s): parser settings memoised in it outlive the values they were computed from "
                          "(a cloned and edited config keeps the old tables), so identical text and configuration can parse differently depending on history"
                          % (f["name"], fty[0][:120], path, hit[0].strip("<:") if hit else ""), "%s:%s" % (adt["file"], adt["line"]),
                          sample={"rule": "R04d", "field": "%s.%s" % (path.split("::")[-1], f["name"]), "verdict": "plain data"})
                st = [f["ty"]]
                seen_t = set()
                while st:
                    ti = st.pop()
                    if ti in seen_t:
                        continue
                    seen_t.add(ti)
                    t = types[ti]
                    if t[2] == "adt" and t[3] in F.adts and t[3].startswith(("emmylua_code_analysis::config", "emmylua_parser::parser::parser_config")):
                        todo.append(t[3])
                    st.extend(t[4] or [])
    chk.floor("configuration fields examined", nf, 60)
    chk.explanation = "Who-may-call on the NodeCache API, call-graph reachability + static-reference scan from the parser entry points, argument provenance at the Vfs parse call."
