#!/bin/bash
# Builds the framework from files on disk only (offline) and warms the dependency build + fact cache.
set -e
cd "$(dirname "$0")"
export CARGO_NET_OFFLINE=true
(cd emmyfacts && cargo +nightly build --release --offline 2>&1 | tail -2)
if [ -d synscan ]; then (cd synscan && cargo build --release --offline 2>&1 | tail -2); fi
python3 - <<'PY'
import sys
sys.path.insert(0, 'lib')
import facts
d, h, n = facts.ensure_facts()
print("facts ready:", d, "source files hashed:", n)
PY
