"""Panic-capable site enumeration over MIR-lite (shared by the panic-surface rules)."""

PANIC_CALLS = {
    "core::option::Option::<T>::unwrap": "unwrap", "core::option::Option::<T>::expect": "expect",
    "core::result::Result::<T, E>::unwrap": "unwrap", "core::result::Result::<T, E>::expect": "expect",
    "core::result::Result::<T, E>::unwrap_err": "unwrap", "core::result::Result::<T, E>::expect_err": "expect",
    "core::panicking::panic": "panic", "core::panicking::panic_fmt": "panic", "core::panicking::panic_display": "panic",
    "core::panicking::unreachable_display": "panic", "core::panicking::panic_explicit": "panic",
    "core::panicking::assert_failed": "assert", "core::panicking::panic_nounwind": "panic",
    "core::cell::RefCell::<T>::borrow_mut": "refcell", "core::cell::RefCell::<T>::borrow": "refcell",
    "core::slice::<impl [T]>::copy_from_slice": "slice-len", "core::slice::<impl [T]>::split_at": "split",
    "core::str::<impl str>::split_at": "split", "alloc::vec::Vec::<T, A>::remove": "vec-remove",
    "alloc::vec::Vec::<T, A>::insert": "vec-insert", "alloc::vec::Vec::<T, A>::swap_remove": "vec-remove",
    "alloc::vec::Vec::<T, A>::drain": "vec-drain", "alloc::string::String::remove": "string-remove",
    "alloc::string::String::insert": "string-insert", "alloc::string::String::insert_str": "string-insert",
    "alloc::string::String::truncate": "string-truncate", "alloc::string::String::replace_range": "string-range",
    "alloc::string::String::drain": "string-range",
    "text_size::range::TextRange::new": "textrange-new",
    "rowan::api::SyntaxNode::<L>::token_at_offset": "rowan-offset", "rowan::api::SyntaxNode::<L>::covering_element": "rowan-range",
}
INDEX_TRAITS = ("core::ops::index::Index::index", "core::ops::index::IndexMut::index_mut")


def classify_call(b, c):
    """kind of panic-capable call or None"""
    f = c.get("f") or ""
    r = c.get("r") or ""
    for n in (r, f):
        if n in PANIC_CALLS:
            return PANIC_CALLS[n]
    if f in INDEX_TRAITS:
        recv = b.ty_str(c["ga"][0]) if c.get("ga") else "?"
        idx = b.ty_str(c["ga"][1]) if len(c.get("ga", [])) > 1 else "?"
        base = recv.split("<")[0]
        if base in ("str", "alloc::string::String") or recv.startswith("str"):
            return "str-slice"
        if "serde_json::value::Value" in recv:
            return "json-index" + ("-mut" if f.endswith("index_mut") else "")
        if base in ("alloc::vec::Vec", "[") or recv.startswith("[") or "VecDeque" in base or "SmallVec" in base:
            return "slice-range" if "Range" in idx else "index"
        if "HashMap" in base or "BTreeMap" in base or "IndexMap" in base:
            return "map-index"
        if "regex::" in recv:
            return "regex-captures-index"
        return "index-other"
    return None


def sites(b):
    """yield (bb, kind, line, detail) for every panic-capable site of a body (non-cleanup blocks)"""
    for bi, blk in enumerate(b.blocks):
        if blk[0]:
            continue
        t = blk[2]
        if t[0] == "call":
            k = classify_call(b, t[1])
            if k:
                yield bi, k, t[1]["l"], (t[1].get("r") or t[1].get("f") or "")
        elif t[0] == "assert":
            kind = t[3]
            if kind in ("BoundsCheck",):
                yield bi, "index", t[6], "bounds check"
            elif kind in ("DivisionByZero", "RemainderByZero"):
                yield bi, "div", t[6], kind
            # Overflow asserts exist only in debug builds: not counted
