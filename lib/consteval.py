"""Tiny evaluators for table-shaped MIR: straight-line const bodies and `match self { V => CONST }` functions."""

BIN = {
    "Shl": lambda a, b: a << b, "Shr": lambda a, b: a >> b, "BitOr": lambda a, b: a | b, "BitAnd": lambda a, b: a & b,
    "Add": lambda a, b: a + b, "Sub": lambda a, b: a - b, "Mul": lambda a, b: a * b, "BitXor": lambda a, b: a ^ b,
    "AddWithOverflow": lambda a, b: (a + b, False), "SubWithOverflow": lambda a, b: (a - b, False),
    "MulWithOverflow": lambda a, b: (a * b, False),
    "Lt": lambda a, b: a < b, "Le": lambda a, b: a <= b, "Gt": lambda a, b: a > b, "Ge": lambda a, b: a >= b,
    "Eq": lambda a, b: a == b, "Ne": lambda a, b: a != b,
}


class NotConst(Exception):
    pass


def operand_value(op, env):
    if op[0] in ("c", "m"):
        pl = op[1]
        v = env.get(pl[0])
        if v is None:
            raise NotConst("unknown local _%d" % pl[0])
        for e in pl[1:]:
            if isinstance(e, list) and e[0] == "f" and isinstance(v, tuple):
                if v[0] == "adt":
                    v = v[3][e[1]]
                elif v[0] == "tuple":
                    v = v[1][e[1]]
                else:
                    raise NotConst("field of non-aggregate")
            else:
                raise NotConst("projection")
        return v
    kind = op[1]
    if kind in ("int", "bool", "char", "str"):
        return op[2]
    if kind == "def":
        return ("def", op[2])
    if kind == "fn":
        return ("fn", op[2])
    if kind == "zst":
        return ("zst", op[2])
    raise NotConst("constant kind %s" % kind)


def eval_rvalue(rv, env):
    k = rv[0]
    if k == "use":
        return operand_value(rv[1], env)
    if k == "cast":
        return operand_value(rv[2], env)
    if k == "bin":
        a = operand_value(rv[2], env)
        b = operand_value(rv[3], env)
        if rv[1] not in BIN or not isinstance(a, (int, bool)) or not isinstance(b, (int, bool)):
            raise NotConst("binop %s" % rv[1])
        r = BIN[rv[1]](a, b)
        if isinstance(r, tuple):
            return ("tuple", list(r))
        return r
    if k == "un":
        a = operand_value(rv[2], env)
        if rv[1] == "Not":
            return (not a) if isinstance(a, bool) else ~a
        if rv[1] == "Neg":
            return -a
        raise NotConst("unop")
    if k == "agg":
        vals = [operand_value(o, env) for o in rv[4]]
        if rv[1] == "adt":
            return ("adt", rv[2], rv[3], vals)
        if rv[1] == "tuple":
            return ("tuple", vals)
        if rv[1] == "array":
            return ("array", vals)
        raise NotConst("aggregate %s" % rv[1])
    if k == "ref":
        pl = rv[2]
        return operand_value(["c", pl], env)
    raise NotConst("rvalue %s" % k)


def eval_straight(b, start=0, env=None, F=None, depth=0):
    """interpret a call-free straight-line body from `start`; returns env at return"""
    env = dict(env or {})
    bb = start
    steps = 0
    while True:
        steps += 1
        if steps > 500:
            raise NotConst("too long")
        blk = b.blocks[bb]
        for st in blk[1]:
            if st[0] == "a":
                dst = st[1]
                v = eval_rvalue(st[2], env)
                if len(dst) == 1:
                    env[dst[0]] = v
                else:
                    raise NotConst("projected store")
        t = blk[2]
        k = t[0]
        if k == "ret":
            return env
        if k == "goto":
            bb = t[1]
        elif k == "fe":
            bb = t[1]
        elif k == "fu":
            bb = t[1]
        elif k == "assert":
            bb = t[4]
        elif k == "drop":
            bb = t[2]
        elif k == "sw":
            v = operand_value(t[1], env)
            if isinstance(v, bool):
                v = int(v)
            nxt = None
            for val, tb in t[2]:
                if val == v:
                    nxt = tb
            bb = nxt if nxt is not None else t[3]
        else:
            raise NotConst("terminator %s" % k)


def const_value(F, path, depth=0):
    """value of a const item by interpreting its body (follows nested const defs)"""
    b = F.bodies.get(path)
    if b is None:
        return ("def", path)
    env = eval_straight(b)
    return resolve_defs(F, env.get(0), depth)


def resolve_defs(F, v, depth=0):
    if depth > 6:
        return v
    if isinstance(v, tuple) and v[0] == "def" and v[1] in F.bodies:
        try:
            return const_value(F, v[1], depth + 1)
        except NotConst:
            return v
    if isinstance(v, tuple) and v[0] in ("adt",):
        return (v[0], v[1], v[2], [resolve_defs(F, x, depth + 1) for x in v[3]])
    if isinstance(v, tuple) and v[0] in ("tuple", "array"):
        return (v[0], [resolve_defs(F, x, depth + 1) for x in v[1]])
    return v


def match_table(b):
    """for `fn f(self) -> T { match self { A => X, B => Y, .. } }`: returns (switch operand, {value: result},
    otherwise_result) where result is the value stored to _0 on that arm or ('complex', reason)."""
    # find the first switch reachable from bb0 through straight-line code
    bb = 0
    env = {}
    seen = set()
    while True:
        if bb in seen:
            raise NotConst("loop before switch")
        seen.add(bb)
        blk = b.blocks[bb]
        t = blk[2]
        if t[0] == "sw":
            break
        if t[0] in ("goto", "fe", "fu"):
            bb = t[1]
        else:
            raise NotConst("no leading switch (terminator %s)" % t[0])
    sw = t

    def arm(start):
        try:
            e = eval_straight(b, start, {})
            return e.get(0, ("unit",))
        except NotConst as ex:
            return ("complex", str(ex))

    table = {}
    for val, tb in sw[2]:
        table[val] = arm(tb)
    other = arm(sw[3]) if b.blocks[sw[3]][2][0] != "unreach" else ("unreachable",)
    return sw[1], table, other
