"""Lock-order analysis on (pre-transform) coroutine MIR.

A guard is a local whose type is a tokio/std lock guard.  The lock's identity is the guarded type (the generic
argument of the guard), which is unique per lock object in this code base (checked by the rule: two lock fields
with the same guarded type would make identities ambiguous and is reported).  Held sets are computed by a forward
may-analysis: a guard local is held from its assignment until it is dropped, moved out or its storage dies.
"""
GUARDS = {
    "tokio::sync::rwlock::read_guard::RwLockReadGuard": ("tokio", "read"),
    "tokio::sync::rwlock::write_guard::RwLockWriteGuard": ("tokio", "write"),
    "tokio::sync::rwlock::owned_read_guard::OwnedRwLockReadGuard": ("tokio", "read"),
    "tokio::sync::rwlock::owned_write_guard::OwnedRwLockWriteGuard": ("tokio", "write"),
    "tokio::sync::rwlock::write_guard_mapped::RwLockMappedWriteGuard": ("tokio", "write"),
    "tokio::sync::mutex::MutexGuard": ("tokio", "mutex"),
    "tokio::sync::mutex::OwnedMutexGuard": ("tokio", "mutex"),
    "std::sync::poison::mutex::MutexGuard": ("std", "mutex"),
    "std::sync::mutex::MutexGuard": ("std", "mutex"),
    "std::sync::MutexGuard": ("std", "mutex"),
    "std::sync::poison::rwlock::RwLockReadGuard": ("std", "read"),
    "std::sync::poison::rwlock::RwLockWriteGuard": ("std", "write"),
    "std::sync::RwLockReadGuard": ("std", "read"),
    "std::sync::RwLockWriteGuard": ("std", "write"),
}


def guard_info(b, local):
    """(lock id, family, mode) if the local is a lock guard (by value)"""
    t = b.local_ty(local)
    if t[1] != 0 or t[2] != "adt" or t[3] not in GUARDS:
        return None
    fam, mode = GUARDS[t[3]]
    inner = b.ty(t[4][0])[0] if t[4] else "?"
    return (short_ty(inner), fam, mode)


def short_ty(s):
    # drop module paths for readability: a::b::C<d::E> -> C<E>
    import re
    return re.sub(r"(?:[A-Za-z_][A-Za-z0-9_]*::)+", "", s)


class BodyLocks:
    """per-body: guard locals, acquisition points with the set held before, calls with the set held"""

    def __init__(self, b):
        self.b = b
        self.guards = {}
        for l in range(len(b.locals)):
            gi = guard_info(b, l)
            if gi:
                self.guards[l] = gi
        self.acquires = []   # (bb, line, lock, mode, fam, held_before:set of (lock,mode,fam,local))
        self.calls_held = []  # (bb, callinfo, held set)
        self.yields_held = []  # (bb, line, held set)
        self.direct = set()
        if self.guards:
            self._run()

    def _run(self):
        b = self.b
        n = len(b.blocks)
        succ = b.succ_map()
        IN = [None] * n
        IN[0] = frozenset()
        work = [0]
        G = self.guards

        def transfer(i, state, record):
            cur = set(state)
            for st in b.blocks[i][1]:
                if st[0] == "sd":
                    cur.discard(st[1])
                elif st[0] == "a":
                    dst, rv = st[1], st[2]
                    # moves out of a guard local
                    if rv[0] == "use" and rv[1][0] == "m" and len(rv[1][1]) == 1 and rv[1][1][0] in G:
                        cur.discard(rv[1][1][0])
                    if len(dst) == 1 and dst[0] in G:
                        if record is not None and dst[0] not in cur:
                            lock, fam, mode = G[dst[0]]
                            # a move from another guard local is a transfer, not an acquisition
                            transfer_ = rv[0] == "use" and rv[1][0] == "m" and len(rv[1][1]) == 1 and rv[1][1][0] in G
                            if not transfer_:
                                record.append(("acq", i, st[3], dst[0], frozenset(cur)))
                        cur.add(dst[0])
            t = b.blocks[i][2]
            k = t[0]
            if k == "call":
                c = t[1]
                if record is not None and cur:
                    record.append(("call", i, c, frozenset(cur)))
                for a in c["a"]:
                    if a[0] == "m" and len(a[1]) == 1 and a[1][0] in G:
                        cur.discard(a[1][0])
                d = c["d"]
                if len(d) == 1 and d[0] in G:
                    if record is not None and d[0] not in cur:
                        record.append(("acq", i, c["l"], d[0], frozenset(cur)))
                    cur.add(d[0])
            elif k == "drop":
                if len(t[1]) == 1:
                    cur.discard(t[1][0])
            elif k == "yield":
                if record is not None and cur:
                    record.append(("yield", i, t[4], frozenset(cur)))
            return frozenset(cur)

        while work:
            i = work.pop()
            out = transfer(i, IN[i], None)
            for s in succ[i]:
                if IN[s] is None:
                    IN[s] = out
                    work.append(s)
                elif not out <= IN[s]:
                    IN[s] = IN[s] | out
                    work.append(s)
        rec = []
        for i in range(n):
            if IN[i] is not None and not b.blocks[i][0]:
                transfer(i, IN[i], rec)
        for r in rec:
            if r[0] == "acq":
                _, bb, line, local, held = r
                lock, fam, mode = G[local]
                self.acquires.append((bb, line, lock, mode, fam, {(G[h][0], G[h][2], G[h][1], h) for h in held}))
                self.direct.add((lock, mode, fam))
            elif r[0] == "call":
                _, bb, c, held = r
                self.calls_held.append((bb, c, {(G[h][0], G[h][2], G[h][1], h) for h in held}))
            else:
                _, bb, line, held = r
                self.yields_held.append((bb, line, {(G[h][0], G[h][2], G[h][1], h) for h in held}))


SPAWNERS = ("tokio::task::spawn::spawn", "tokio::spawn", "tokio::task::blocking::spawn_blocking",
            "std::thread::spawn", "tokio::runtime::handle::Handle::spawn", "tokio::runtime::runtime::Runtime::spawn")


class LockGraph:
    def __init__(self, F, crate_filter=None):
        self.F = F
        self.bl = {}
        for bid, b in F.bodies.items():
            if crate_filter and b.crate not in crate_filter:
                continue
            if b.kind in ("const", "static", "promoted"):
                continue
            self.bl[bid] = BodyLocks(b)
        self._acq = {}

    def call_targets(self, b, c):
        callee = c.get("r") or c.get("f") or ""
        if callee in SPAWNERS:
            return []
        out = []
        if callee in self.F.bodies:
            out.append(callee)
            # calling an async fn only builds the future; its body runs when polled by the caller
            if self.F.bodies[callee].get("async") and callee + "::{closure#0}" in self.F.bodies:
                out.append(callee + "::{closure#0}")
        elif not c.get("r"):
            for im in self.F.trait_impls().get(c.get("f"), ()):
                out.append(im)
        return out

    def acquires(self, bid, _stack=None):
        """transitive set of (lock, mode, fam) a body may acquire (not through spawned tasks)"""
        if bid in self._acq:
            return self._acq[bid]
        _stack = _stack or set()
        if bid in _stack:
            return set()
        _stack.add(bid)
        bl = self.bl.get(bid)
        res = set(bl.direct) if bl else set()
        b = self.F.bodies.get(bid)
        if b is not None:
            for bb, c in b.calls():
                for t in self.call_targets(b, c):
                    res |= self.acquires(t, _stack)
        _stack.discard(bid)
        self._acq[bid] = res
        return res

    def edges(self):
        """yield (held_lock, held_mode, acquired_lock, acquired_mode, fam, body id, line, via)"""
        for bid, bl in self.bl.items():
            b = bl.b
            for bb, line, lock, mode, fam, held in bl.acquires:
                for (hl, hm, hf, _) in held:
                    yield (hl, hm, lock, mode, fam, bid, line, "direct")
            for bb, c, held in bl.calls_held:
                for t in self.call_targets(b, c):
                    for (lock, mode, fam) in self.acquires(t):
                        for (hl, hm, hf, _) in held:
                            yield (hl, hm, lock, mode, fam, bid, c["l"], "call " + t)
