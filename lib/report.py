"""Obligation bookkeeping, known findings, replay files and evidence for one check run."""
import hashlib
import json
import os
import sys
import time

VERIF = os.path.dirname(os.path.dirname(os.path.abspath(__file__)))
# evidence is only ever written for /repo itself; scratch runs (VERIF_REPO=<worktree>) go elsewhere
EVID = os.path.join(VERIF, "evidence") if os.environ.get("VERIF_REPO", "/repo") == "/repo" else os.path.join(VERIF, ".cache", "evidence-scratch")


class RuleBroken(Exception):
    """the rule could not be evaluated (missing anchor, count below floor): fail closed"""


class Check:
    def __init__(self, prop, tier, level):
        self.prop = prop
        self.tier = tier
        self.level = level
        self.t0 = time.time()
        self.obligations = 0
        self.discharged = 0
        self.violations = []  # dicts
        self.samples = []
        self.units = {}  # name -> count, what was analysed
        self.rules = []  # rule texts
        self.assumptions = []
        self.trusted = ["rustc MIR construction and trait solver (nightly 1.97)", "emmyfacts extraction",
                        "cargo's build plan for the workspace (default features)"]
        self.info = []
        self.distinct = set()
        self.explanation = ""

    # ---- recording
    def rule(self, rid, text):
        self.rules.append("%s: %s" % (rid, text))

    def unit(self, name, count):
        self.units[name] = self.units.get(name, 0) + count

    def assume(self, text):
        if text not in self.assumptions:
            self.assumptions.append(text)

    def sample(self, s):
        if len(self.samples) < 12:
            self.samples.append(s)

    def note(self, s):
        self.info.append(s)

    def ok(self, rule, key, sample=None):
        self.obligations += 1
        self.discharged += 1
        self.distinct.add((rule, key))
        if sample is not None:
            self.sample(sample)
        elif len(self.samples) < 6:
            self.sample({"rule": rule, "instance": key, "verdict": "holds"})

    def violation(self, rule, key, msg, loc=None, witness=None):
        self.obligations += 1
        self.distinct.add((rule, key))
        self.violations.append({"rule": rule, "key": "%s|%s" % (rule, key), "msg": msg, "loc": loc,
                                "witness": witness})

    def check(self, cond, rule, key, msg, loc=None, witness=None, sample=None):
        if cond:
            self.ok(rule, key, sample)
        else:
            self.violation(rule, key, msg, loc, witness)
        return cond

    def floor(self, name, count, minimum):
        """fail closed when the rule matched fewer instances than were confirmed by hand"""
        self.unit(name, 0)
        self.units[name] = count
        if count < minimum:
            raise RuleBroken("%s: found %d, expected at least %d (anchor lost? the rule would pass vacuously)"
                             % (name, count, minimum))

    # ---- finishing
    def finish(self):
        known = load_known()
        open_keys = {(k["property"], k["key"]): k for k in known if k.get("status") == "open"}
        exit_code = 0
        out_lines = []
        n_known = 0
        n_new = 0
        rdir = os.path.join(VERIF, "replays") if EVID == os.path.join(VERIF, "evidence") else os.path.join(EVID, "replays")
        os.makedirs(rdir, exist_ok=True)
        seen = set()
        for v in self.violations:
            if v["key"] in seen:
                continue
            seen.add(v["key"])
            kf = open_keys.get((self.prop, v["key"]))
            if kf is not None:
                n_known += 1
                out_lines.append("KNOWN-FINDING: property=%s %s -- %s" % (self.prop, v["key"], kf.get("what", v["msg"])))
                continue
            n_new += 1
            h = hashlib.sha1(v["key"].encode()).hexdigest()[:12]
            rp = os.path.join(rdir, "%s-%s.json" % (self.prop, h))
            with open(rp, "w") as fh:
                json.dump({"property": self.prop, "tier": self.tier, **v}, fh, indent=1)
            out_lines.append("  %s %s: %s" % (v["loc"] or "", v["key"], v["msg"]))
            out_lines.append("VIOLATION property=%s replay=%s" % (self.prop, rp))
            exit_code = 1
        wall = time.time() - self.t0
        distinct = len(self.distinct)
        coverage = {
            "obligations": self.obligations,
            "discharged": self.discharged + n_known if self.level != "proof" else self.discharged,
            "evaluations": max(self.obligations, 1),
            "distinct_nontrivial": distinct,
            "rule": " || ".join(self.rules) + " -- an instance is one (rule, site/key) pair decided from the "
                    "facts of the current tree; distinct = distinct keys",
            "samples": self.samples or [{"note": "no instances"}],
            "checker_cmd": "./vcheck %s --%s" % (self.prop, self.tier),
            "trusted_base": self.trusted,
            "analysed": self.units,
            "explanation": self.explanation or " ".join(self.rules),
            "exhaustive": True,
            "known_findings_matched": n_known,
            "notes": self.info[:40],
        }
        ev = {
            "property_id": self.prop,
            "tier": self.tier,
            "seed": int(os.environ.get("VERIF_SEED", "0") or 0),
            "level": self.level,
            "coverage": coverage,
            "assumptions": self.assumptions,
            "wall_s": round(wall, 2),
            "violations": n_new,
        }
        os.makedirs(EVID, exist_ok=True)
        with open(os.path.join(EVID, "%s.json" % self.prop), "w") as fh:
            json.dump(ev, fh, indent=1)
            fh.write("\n")
        print("%s [%s] analysed: %s" % (self.prop, self.tier,
                                        ", ".join("%s=%s" % kv for kv in sorted(self.units.items()))))
        print("%s obligations=%d discharged=%d known=%d new_violations=%d wall=%.1fs" % (
            self.prop, self.obligations, self.discharged, n_known, n_new, wall))
        for l in out_lines:
            print(l)
        return exit_code


def load_known():
    p = os.path.join(VERIF, "known_findings.json")
    if not os.path.exists(p):
        return []
    with open(p) as fh:
        return json.load(fh)["findings"]


def fail_closed(prop, tier, level, err):
    """the rule itself is broken on this tree: report as a violation with an explanatory replay"""
    rdir = os.path.join(VERIF, "replays") if EVID == os.path.join(VERIF, "evidence") else os.path.join(EVID, "replays")
    os.makedirs(rdir, exist_ok=True)
    rp = os.path.join(rdir, "%s-rule-broken.json" % prop)
    with open(rp, "w") as fh:
        json.dump({"property": prop, "rule_could_not_be_evaluated": str(err)}, fh, indent=1)
    ev = {
        "property_id": prop, "tier": tier, "seed": 0, "level": level,
        "coverage": {"evaluations": 1, "distinct_nontrivial": 0, "rule": "rule could not be evaluated",
                     "samples": [str(err)], "explanation": "rule could not be evaluated: %s" % err,
                     "obligations": 1, "discharged": 0, "checker_cmd": "./vcheck %s" % prop, "trusted_base": []},
        "assumptions": [], "wall_s": 0.0, "violations": 1,
    }
    os.makedirs(EVID, exist_ok=True)
    with open(os.path.join(EVID, "%s.json" % prop), "w") as fh:
        json.dump(ev, fh, indent=1)
    print("%s: rule could not be evaluated: %s" % (prop, err))
    print("VIOLATION property=%s replay=%s" % (prop, rp))
    return 1
