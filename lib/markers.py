"""Effect analysis of the parser's marker protocol (DESIGN.md 4.1, simplified and made exact where possible).

Effects are pairs (d_open, d_level): open = NodeStart events not yet closed (or annulled), level = mark_level.
Primitive effects are read off marker.rs's own MIR:
   incr_mark_level -> (0,+1)   decr_mark_level -> (0,-1)
   Vec::push(MarkEvent::NodeStart) -> (+1,0)   Vec::push(MarkEvent::NodeEnd) -> (-1,0)
   `NodeStart.kind = LuaSyntaxKind::None` (annulling a start) -> (-1,0)
and the marker API (mark, push_node_end, complete, undo, precede, set_kind) gets *computed* outcome sets.
Grammar functions (first parameter `&mut LuaParser` / `&mut LuaDocParser`) are then analysed path by path.
"""
import paths

P = "emmylua_parser::parser::marker::"
API = ("MarkerEventContainer::mark", "MarkerEventContainer::push_node_end", "Marker::complete", "Marker::undo",
       "CompleteMarker::precede", "Marker::set_kind", "Marker::new", "CompleteMarker::empty", "CompleteMarker::is_invalid")


def name(c):
    return c.get("r") or c.get("f") or ""


def is_parser_ty(s):
    return s.startswith("&mut emmylua_parser::parser::lua_parser::LuaParser") or \
        s.startswith("&mut emmylua_parser::parser::lua_doc_parser::LuaDocParser")


def grammar_functions(F):
    return [b for b in F.bodies.values() if b.kind == "fn" and b.argc >= 1 and is_parser_ty(b.local_ty_str(1))]


def _pushed_variant(b, c):
    """variant of MarkEvent pushed by a Vec::push call, if the pushed value is a local aggregate"""
    if len(c["a"]) < 2:
        return None
    a = c["a"][1]
    if a[0] not in ("c", "m") or len(a[1]) != 1:
        return None
    for blk in b.blocks:
        for st in blk[1]:
            if st[0] == "a" and st[1] == [a[1][0]] and st[2][0] == "agg" and st[2][2] and st[2][2].endswith("::MarkEvent"):
                return st[2][3]
    return None


def block_primitive_effect(b, bb):
    """effect of the statements + terminator of one block from primitives only; calls to API are returned separately"""
    do = dl = 0
    for st in b.blocks[bb][1]:
        if st[0] == "a":
            dst = st[1]
            if any(isinstance(e, list) and e[0] == "d" and e[1] == "NodeStart" for e in dst[1:]) and \
                    any(isinstance(e, list) and e[0] == "f" and e[2] == "kind" for e in dst[1:]):
                rv = st[2]
                txt = repr(rv)
                if "'None'" in txt:
                    do -= 1
            # `*kind = LuaSyntaxKind::None` through a reference local taken from the NodeStart payload
            if len(dst) == 2 and dst[1] == "*" and st[2][0] in ("agg", "use") and "LuaSyntaxKind" in b.local_ty_str(dst[0]):
                is_none = "'None'" in repr(st[2])
                if not is_none and st[2][0] == "use" and st[2][1][0] in ("c", "m") and len(st[2][1][1]) == 1:
                    src = st[2][1][1][0]
                    for blk2 in b.blocks:
                        for st2 in blk2[1]:
                            if st2[0] == "a" and st2[1] == [src] and st2[2][0] == "agg" and st2[2][3] == "None" and \
                                    (st2[2][2] or "").endswith("LuaSyntaxKind"):
                                is_none = True
                if is_none:
                    do -= 1
    t = b.blocks[bb][2]
    call = None
    if t[0] == "call":
        c = t[1]
        n = name(c)
        f = c.get("f") or ""
        if f.endswith("::incr_mark_level") or n.endswith("::incr_mark_level"):
            dl += 1
        elif f.endswith("::decr_mark_level") or n.endswith("::decr_mark_level"):
            dl -= 1
        elif n.startswith("alloc::vec::Vec") and n.endswith("::push"):
            v = _pushed_variant(b, c)
            if v == "NodeStart":
                do += 1
            elif v == "NodeEnd":
                do -= 1
        else:
            call = c
    return do, dl, call


class MarkerSummaries:
    def __init__(self, F):
        self.F = F
        self.api = {}
        self._compute_api()

    def _compute_api(self):
        F = self.F
        order = ["Marker::new", "CompleteMarker::empty", "CompleteMarker::is_invalid", "Marker::set_kind",
                 "MarkerEventContainer::mark", "MarkerEventContainer::push_node_end", "Marker::undo", "Marker::complete",
                 "CompleteMarker::precede"]
        for nm in order:
            b = F.bodies.get(P + nm)
            if b is None:
                continue
            outs = set()
            rets = set(b.returns())

            def on_path(p, b=b, outs=outs):
                confs = {(0, 0)}
                for bb in p:
                    do, dl, call = block_primitive_effect(b, bb)
                    add = {(0, 0)}
                    if call is not None:
                        n = name(call)
                        for k, v in self.api.items():
                            if n == P + k:
                                add = v
                    confs = {(o + do + ao, l + dl + al) for (o, l) in confs for (ao, al) in add}
                outs.update(confs)
            paths.enumerate_paths(b, 0, lambda bb: bb in rets, max_visits=1, max_paths=5000, on_path=on_path)
            self.api[nm] = outs or {(0, 0)}

    def api_effect(self, callee):
        for k, v in self.api.items():
            if callee == P + k:
                return v
        return None
