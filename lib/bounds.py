"""Index-in-bounds facts for one body: which values are known to be < / <= the length of which sequence.

Facts come from (1) comparisons with `len()` (or with min(len, ..)) on dominating branch edges, (2) the iteration variable
of `for i in a..n` and `for (i, _) in xs.iter().enumerate()`, (3) emptiness tests (`!v.is_empty()` => 0 < len).
Values and sequences are identified by canonical keys built from dataflow roots, so two borrows of the same place or two
`x.len()` calls on the same receiver compare equal.
"""
import cfgutil
import dataflow
import guards

LEN_CALLS = ("::len",)
MIN_CALLS = ("::min",)


def name(c):
    return c.get("r") or c.get("f") or ""


def _freeze(x):
    if isinstance(x, (list, tuple)):
        return tuple(_freeze(y) for y in x)
    return x


class Bounds:
    def __init__(self, F, b):
        self.F = F
        self.b = b
        self.succ = b.succ_map()
        self.idom = cfgutil.dominators(self.succ, 0)
        self._loop = None
        self._edge = None
        self._keys = {}

    # ---- canonical keys
    def seq_key(self, op):
        """key of a sequence operand (slice / Vec / str reference): its roots, reference- and deref-insensitive"""
        l = dataflow.operand_local(op)
        if l is None:
            return ("const", _freeze(op))
        rs = dataflow.roots(self.b, l)
        out = set()
        for r in rs:
            if r[0] == "call":
                c = self.b.blocks[r[1]][2][1]
                n = name(c)
                # as_slice / deref / as_ref / iter-less views of the same sequence
                if n.endswith(("::as_slice", "Deref>::deref", "DerefMut>::deref_mut", "::as_ref", "::as_mut_slice", "::as_str", "::as_bytes")) and c["a"]:
                    out.add(self.seq_key(c["a"][0]))
                    continue
                if n.endswith(LEN_CALLS) or n.endswith(("::get_params", "::get_types", "::get_type_params", "::get_operands")) and c["a"]:
                    # pure getters of a stored sequence: same receiver => same sequence
                    out.add(("getter", n.split("::")[-1], self.seq_key(c["a"][0])))
                    continue
            if r[0] == "place":
                # strip derefs
                out.add(("place", r[1], tuple(e for e in r[2] if e != "*")))
                continue
            out.add(r)
        return ("seq", frozenset(out))

    def val_key(self, op, depth=0):
        if op[0] == "k":
            if op[1] == "int":
                return ("int", op[2])
            return ("const", _freeze(op[:3]))
        l = dataflow.operand_local(op)
        if l is None:
            return ("opaque", _freeze(op))
        ck = (l,)
        if ck in self._keys:
            return self._keys[ck]
        self._keys[ck] = ("cycle", l)
        rs = dataflow.roots(self.b, l)
        res = None
        if len(rs) == 1 and depth < 6:
            r = next(iter(rs))
            if r[0] == "call":
                c = self.b.blocks[r[1]][2][1]
                n = name(c)
                if n.endswith(LEN_CALLS) and len(c["a"]) == 1:
                    res = ("len", self.seq_key(c["a"][0]))
                elif n.endswith(MIN_CALLS) and len(c["a"]) == 2:
                    res = ("min", self.val_key(c["a"][0], depth + 1), self.val_key(c["a"][1], depth + 1))
                elif n.endswith(("::saturating_sub", "::wrapping_sub")) and len(c["a"]) == 2:
                    res = ("le", self.val_key(c["a"][0], depth + 1))      # result <= first operand
            elif r[0] == "other":
                rv = self.b.blocks[r[1]][1][r[2]][2]
                if rv[0] == "un" and rv[1] == "PtrMetadata":
                    res = ("len", self.seq_key(rv[2]))
                elif rv[0] == "bin" and rv[1] in ("Add", "AddWithOverflow", "AddUnchecked"):
                    a, c2 = rv[2], rv[3]
                    if c2[0] == "k" and c2[1] == "int":
                        res = ("add", self.val_key(a, depth + 1), c2[2])
                    elif a[0] == "k" and a[1] == "int":
                        res = ("add", self.val_key(c2, depth + 1), a[2])
                elif rv[0] == "bin" and rv[1] in ("Sub", "SubWithOverflow", "SubUnchecked"):
                    res = ("le", self.val_key(rv[2], depth + 1))
                elif rv[0] == "cast":
                    for y in rv[1:]:
                        if isinstance(y, list) and y and y[0] in ("c", "m", "k"):
                            res = self.val_key(y, depth + 1)
                            break
            elif r[0] == "place":
                proj = r[2]
                # (x +ovf c).0
                if len(proj) == 1 and isinstance(proj[0], (list, tuple)) and proj[0][0] == "f" and proj[0][1] == 0:
                    ds = dataflow.def_sites(self.b).get(r[1], [])
                    if len(ds) == 1 and ds[0][0] == "stmt" and ds[0][3][0] == "bin" and ds[0][3][1].endswith("WithOverflow"):
                        rv = ds[0][3]
                        if rv[1].startswith("Add") and rv[3][0] == "k" and rv[3][1] == "int":
                            res = ("add", self.val_key(rv[2], depth + 1), rv[3][2])
                        elif rv[1].startswith("Sub"):
                            res = ("le", self.val_key(rv[2], depth + 1))
                if res is None:
                    res = ("place", r[1], _freeze(tuple(e for e in proj)))
            elif r[0] == "const":
                try:
                    res = ("int", int(r[1]))
                except Exception:
                    res = ("const", r[1])
        if res is None:
            res = ("roots", frozenset(_freeze(r) for r in rs))
        self._keys[ck] = res
        return res

    # ---- facts
    def loop_facts(self):
        """[(value key, bound value key)] with value < bound, from range / enumerate iteration"""
        if self._loop is not None:
            return self._loop
        b = self.b
        out = []
        defs = dataflow.def_sites(b)
        for bb, c in b.calls():
            n = name(c)
            if not n.endswith("::next") or len(c["d"]) != 1 or not c["a"]:
                continue
            it = dataflow.operand_local(c["a"][0])
            if it is None:
                continue
            nxt = c["d"][0]
            for r in dataflow.roots(b, it):
                # into_iter(Range { start, end })
                if r[0] == "call":
                    cc = b.blocks[r[1]][2][1]
                    nn = name(cc)
                    if nn.endswith("IntoIterator>::into_iter") and cc["a"]:
                        for r2 in dataflow.roots(b, dataflow.operand_local(cc["a"][0])) if dataflow.operand_local(cc["a"][0]) is not None else ():
                            if r2[0] == "agg":
                                st = b.blocks[r2[1]][1][r2[2]]
                                if (st[2][2] or "").endswith("ops::range::Range") and len(st[2][4]) == 2:
                                    out.append((("place", nxt, (("d", "Some", 1), ("f", 0, "0"))), self.val_key(st[2][4][1])))
                            if r2[0] == "call":
                                c3 = b.blocks[r2[1]][2][1]
                                if name(c3).endswith("Iterator::enumerate") and c3["a"]:
                                    self._enum(out, nxt, c3["a"][0])
                    elif nn.endswith("Iterator::enumerate") and cc["a"]:
                        self._enum(out, nxt, cc["a"][0])
                elif r[0] == "agg":
                    st = b.blocks[r[1]][1][r[2]]
                    if (st[2][2] or "").endswith("ops::range::Range") and len(st[2][4]) == 2:
                        out.append((("place", nxt, (("d", "Some", 1), ("f", 0, "0"))), self.val_key(st[2][4][1])))
        self._loop = out
        return out

    def _enum(self, out, nxt, iter_op):
        """enumerate(xs.iter()) : the index is < len(xs)"""
        b = self.b
        l = dataflow.operand_local(iter_op)
        if l is None:
            return
        for r in dataflow.roots(b, l):
            if r[0] == "call":
                c = b.blocks[r[1]][2][1]
                if name(c).endswith(("::iter", "::iter_mut", "IntoIterator>::into_iter")) and c["a"]:
                    out.append((("place", nxt, (("d", "Some", 1), ("f", 0, "0"), ("f", 0, None))), ("len", self.seq_key(c["a"][0]))))
                    out.append((("place", nxt, (("d", "Some", 1), ("f", 0, "0"), ("f", 0, "0"))), ("len", self.seq_key(c["a"][0]))))

    def edge_facts(self):
        """[(good_target_block, x key, strict, y key)]: on entering good_target, x < y (strict) or x <= y holds"""
        if self._edge is not None:
            return self._edge
        b = self.b
        out = []
        for gb, blk in enumerate(b.blocks):
            if blk[0]:
                continue
            t = blk[2]
            if t[0] == "sw" and t[1][0] in ("c", "m") and len(t[1][1]) == 1:
                cl = t[1][1][0]
                for st in blk[1]:
                    if st[0] == "a" and st[1] == [cl] and st[2][0] == "bin" and st[2][1] in ("Lt", "Le", "Gt", "Ge", "Eq", "Ne"):
                        zero = [tb for v, tb in t[2] if v == 0]
                        if not zero:
                            continue
                        self._cmp(out, st[2][1], st[2][2], st[2][3], t[3], zero[0])
            if t[0] == "sw" and t[1][0] in ("c", "m") and len(t[1][1]) == 1:
                # `match xs.len() { 1 => .., 2 => .. }`: on the arm for N, N <= len (and len <= N)
                kv = self.val_key(t[1])
                if kv[0] == "len":
                    for v, tb in t[2]:
                        if isinstance(v, int):
                            out.append((tb, ("int", v), False, kv))
            if t[0] == "call":
                n = name(t[1])
                short = n.rsplit("::", 1)[-1]
                if short in ("lt", "le", "gt", "ge") and "PartialOrd" in n and len(t[1]["a"]) == 2:
                    br = guards.bool_branch(b, gb)
                    if br:
                        self._cmp(out, {"lt": "Lt", "le": "Le", "gt": "Gt", "ge": "Ge"}[short], t[1]["a"][0], t[1]["a"][1], br[0], br[1], deref=True)
                elif short == "is_empty" and len(t[1]["a"]) == 1:
                    br = guards.bool_branch(b, gb)
                    if br:
                        out.append((br[1], ("int", 0), True, ("len", self.seq_key(t[1]["a"][0]))))
        self._edge = out
        return out

    def _cmp(self, out, op, x, y, t_true, t_false, deref=False):
        kx, ky = self.val_key(x), self.val_key(y)
        if op == "Lt":
            out.append((t_true, kx, True, ky))
            out.append((t_false, ky, False, kx))
        elif op == "Le":
            out.append((t_true, kx, False, ky))
            out.append((t_false, ky, True, kx))
        elif op == "Gt":
            out.append((t_true, ky, True, kx))
            out.append((t_false, kx, False, ky))
        elif op == "Ge":
            out.append((t_true, ky, False, kx))
            out.append((t_false, kx, True, ky))
        elif op == "Eq":
            out.append((t_true, kx, False, ky))
            out.append((t_true, ky, False, kx))
        elif op == "Ne":
            out.append((t_false, kx, False, ky))
            out.append((t_false, ky, False, kx))

    def _holds_at(self, target, bb):
        return target == bb or cfgutil.dominates(self.idom, target, bb)

    def _le_len(self, k, seq, strict_needed, bb, depth=0):
        """is value key k known to be < (strict) / <= len(seq) at block bb ?"""
        if depth > 4:
            return None
        if k == ("len", seq):
            return None if strict_needed else "start is the sequence's own len()"
        if k[0] == "int" and k[1] == 0 and not strict_needed:
            return "constant 0"
        if k[0] == "min":
            for sub in k[1:]:
                w = self._le_len(sub, seq, strict_needed, bb, depth + 1)
                if w:
                    return "min(..): " + w
        if k[0] == "le":
            w = self._le_len(k[1], seq, strict_needed, bb, depth + 1)
            if w:
                return "not larger than a bounded value: " + w
        if k[0] == "add" and isinstance(k[2], int) and k[2] == 1 and not strict_needed:
            w = self._le_len(k[1], seq, True, bb, depth + 1)
            if w:
                return "i + 1 with i < len: " + w
        for v, bound in self.loop_facts():
            if v == k:
                w = self._bound_le_len(bound, seq, bb, depth + 1)
                if w:
                    return "iteration variable below %s" % w
        for tgt, x, strict, y in self.edge_facts():
            if x != k and not (x[0] == "add" and x[1] == k and isinstance(x[2], int) and x[2] >= 0):
                continue          # (k + c) < y implies k < y
            if not self._holds_at(tgt, bb):
                continue
            if strict_needed and not strict:
                continue
            w = self._bound_le_len(y, seq, bb, depth + 1)
            if w:
                return "dominating comparison with %s" % w
            # x < y and y < len ...
        return None

    def _bound_le_len(self, y, seq, bb, depth):
        """bound value y <= len(seq)?"""
        if y == ("len", seq):
            return "len()"
        if y[0] == "min":
            for sub in y[1:]:
                w = self._bound_le_len(sub, seq, bb, depth + 1)
                if w:
                    return "min(.., %s)" % w
        if depth < 4:
            w = self._le_len(y, seq, False, bb, depth + 1)
            if w:
                return "a value <= len (%s)" % w
        return None

    # ---- queries
    def range_from_ok(self, bb, seq_op, start_op):
        """seq[start..]: needs start <= len(seq)"""
        return self._le_len(self.val_key(start_op), self.seq_key(seq_op), False, bb)

    def index_ok(self, bb, seq_op, idx_op):
        """seq[idx]: needs idx < len(seq)"""
        k = self.val_key(idx_op)
        seq = self.seq_key(seq_op)
        if k[0] == "int":
            w = self.const_index_ok(bb, k[1], seq)
            if w:
                return w
        if k[0] == "int" and k[1] == 0:
            # 0 < len after a non-empty test
            for tgt, x, strict, y in self.edge_facts():
                if x == ("int", 0) and strict and y == ("len", seq) and self._holds_at(tgt, bb):
                    return "index 0 after a non-empty test"
        return self._le_len(k, seq, True, bb)

    def const_index_ok(self, bb, c, seq):
        """constant index c is < len(seq) when a fact N <= len (c < N) or N < len (c <= N) holds here"""
        for tgt, x, strict, y in self.edge_facts():
            if x[0] == "int" and y == ("len", seq) and self._holds_at(tgt, bb):
                if c < x[1] or (strict and c <= x[1]):
                    return "constant index %d under a length test (len %s %d)" % (c, ">" if strict else ">=", x[1])
        return None
