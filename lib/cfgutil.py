"""CFG utilities over MIR-lite bodies: reachability, dominators, post-dominators, loops, SCCs."""
import sys

sys.setrecursionlimit(100000)


def reachable(succ, start=0):
    seen = {start}
    st = [start]
    while st:
        n = st.pop()
        for s in succ[n]:
            if s not in seen:
                seen.add(s)
                st.append(s)
    return seen


def rpo(succ, start=0):
    order = []
    seen = set()
    st = [(start, iter(succ[start]))]
    seen.add(start)
    while st:
        n, it = st[-1]
        adv = False
        for s in it:
            if s not in seen:
                seen.add(s)
                st.append((s, iter(succ[s])))
                adv = True
                break
        if not adv:
            order.append(n)
            st.pop()
    order.reverse()
    return order


def dominators(succ, start=0):
    """immediate dominators (Cooper/Harvey/Kennedy); returns dict node -> idom (start -> start)"""
    order = rpo(succ, start)
    idx = {n: i for i, n in enumerate(order)}
    pred = {n: [] for n in order}
    for n in order:
        for s in succ[n]:
            if s in pred:
                pred[s].append(n)
    idom = {start: start}

    def intersect(a, b):
        while a != b:
            while idx[a] > idx[b]:
                a = idom[a]
            while idx[b] > idx[a]:
                b = idom[b]
        return a

    changed = True
    while changed:
        changed = False
        for n in order[1:]:
            new = None
            for p in pred[n]:
                if p in idom:
                    new = p if new is None else intersect(p, new)
            if new is not None and idom.get(n) != new:
                idom[n] = new
                changed = True
    return idom


def dominates(idom, a, b):
    """a dominates b (reflexive)"""
    if b not in idom:
        return False
    while True:
        if a == b:
            return True
        p = idom[b]
        if p == b:
            return False
        b = p


def dom_set(idom, b):
    r = []
    while True:
        r.append(b)
        p = idom[b]
        if p == b:
            return r
        b = p


def post_dominators(succ, exits):
    """post-dominators w.r.t. a virtual exit joined from `exits`; returns (ipdom dict, VEXIT)"""
    n = len(succ)
    VEXIT = n
    rsucc = [[] for _ in range(n + 1)]
    for a in range(n):
        for b in succ[a]:
            rsucc[b].append(a)
    for e in exits:
        rsucc[VEXIT].append(e)
    return dominators(rsucc, VEXIT), VEXIT


def sccs(nodes, succ_fn):
    """Tarjan, iterative. nodes: iterable; succ_fn(n) -> iterable. Returns list of lists."""
    index = {}
    low = {}
    onstack = set()
    stack = []
    out = []
    counter = [0]
    for root in nodes:
        if root in index:
            continue
        work = [(root, iter(succ_fn(root)))]
        index[root] = low[root] = counter[0]
        counter[0] += 1
        stack.append(root)
        onstack.add(root)
        while work:
            v, it = work[-1]
            adv = False
            for w in it:
                if w not in index:
                    index[w] = low[w] = counter[0]
                    counter[0] += 1
                    stack.append(w)
                    onstack.add(w)
                    work.append((w, iter(succ_fn(w))))
                    adv = True
                    break
                elif w in onstack:
                    low[v] = min(low[v], index[w])
            if adv:
                continue
            work.pop()
            if work:
                u = work[-1][0]
                low[u] = min(low[u], low[v])
            if low[v] == index[v]:
                comp = []
                while True:
                    w = stack.pop()
                    onstack.discard(w)
                    comp.append(w)
                    if w == v:
                        break
                out.append(comp)
    return out


def natural_loops(succ, start=0):
    """returns dict header -> set(nodes of the loop) using back edges a->h where h dominates a"""
    idom = dominators(succ, start)
    loops = {}
    pred = {}
    for a in idom:
        for b in succ[a]:
            pred.setdefault(b, []).append(a)
    for a in idom:
        for h in succ[a]:
            if h in idom and dominates(idom, h, a):
                body = loops.setdefault(h, {h})
                st = [a]
                while st:
                    x = st.pop()
                    if x in body:
                        continue
                    body.add(x)
                    st.extend(p for p in pred.get(x, []) if p in idom)
    return loops


def paths_avoiding(succ, start, targets, avoid):
    """is some node of `targets` reachable from start without passing through a node in `avoid`?
    returns a witness path (list) or None"""
    if start in avoid:
        return None
    prev = {start: None}
    st = [start]
    while st:
        n = st.pop()
        if n in targets:
            p = []
            while n is not None:
                p.append(n)
                n = prev[n]
            return p[::-1]
        for s in succ[n]:
            if s not in prev and s not in avoid:
                prev[s] = n
                st.append(s)
    return None
