"""Small flow-insensitive value-provenance helpers over MIR-lite."""


def def_sites(b):
    """local -> list of ('stmt', bb, idx, rvalue) | ('call', bb, callinfo) for whole-local definitions"""
    d = getattr(b, "_defs", None) if hasattr(b, "_defs") else None
    cache = b.d.get("_defs")
    if cache is not None:
        return cache
    res = {}
    for bi, blk in enumerate(b.blocks):
        for si, st in enumerate(blk[1]):
            if st[0] == "a" and len(st[1]) == 1:
                res.setdefault(st[1][0], []).append(("stmt", bi, si, st[2]))
        t = blk[2]
        if t[0] == "call" and len(t[1]["d"]) == 1:
            res.setdefault(t[1]["d"][0], []).append(("call", bi, t[1]))
        elif t[0] == "yield":
            pass
    b.d["_defs"] = res
    return res


def roots(b, local, through_refs=True, through_calls=None, _seen=None):
    """follow copies/moves (and optionally &/&mut of whole locals and selected pass-through calls) backwards.
    Returns a set of root descriptors: ('arg', n) | ('call', bb) | ('agg', bb, si) | ('const', value) |
    ('place', local, proj-tuple) | ('other', bb, si)"""
    if _seen is None:
        _seen = set()
    if local in _seen:
        return set()
    _seen.add(local)
    out = set()
    ds = def_sites(b).get(local, [])
    if not ds:
        if 1 <= local <= b.argc:
            out.add(("arg", local))
        else:
            out.add(("undef", local))
        return out
    if 1 <= local <= b.argc:
        out.add(("arg", local))
    for d in ds:
        if d[0] == "call":
            c = d[2]
            callee = c.get("r") or c.get("f") or ""
            if through_calls and through_calls(callee) and c["a"] and c["a"][0][0] in ("c", "m"):
                out |= roots(b, c["a"][0][1][0], through_refs, through_calls, _seen)
            else:
                out.add(("call", d[1]))
            continue
        rv = d[3]
        k = rv[0]
        src = None
        if k == "use":
            op = rv[1]
            if op[0] in ("c", "m"):
                src = op[1]
            else:
                out.add(("const", str(op[2])))
                continue
        elif k == "cast":
            op = rv[2]
            if op[0] in ("c", "m"):
                src = op[1]
            else:
                out.add(("const", str(op[2])))
                continue
        elif k == "cfd":
            src = rv[1]
        elif k == "ref" and through_refs:
            src = rv[2]
        elif k == "agg":
            out.add(("agg", d[1], d[2]))
            continue
        else:
            out.add(("other", d[1], d[2]))
            continue
        if len(src) == 1 or (through_refs and all(e == "*" for e in src[1:])):
            out |= roots(b, src[0], through_refs, through_calls, _seen)
        else:
            out.add(("place", src[0], tuple(_freeze(e) for e in src[1:])))
    return out


def _freeze(e):
    return tuple(e) if isinstance(e, list) else e


def operand_local(op):
    if op[0] in ("c", "m") and len(op[1]) == 1:
        return op[1][0]
    return None


def str_consts(b):
    """all &str literals mentioned in the body"""
    out = []

    def walk(x):
        if isinstance(x, list):
            if len(x) >= 3 and x[0] == "k" and x[1] == "str":
                out.append(x[2])
            else:
                for y in x:
                    walk(y)
        elif isinstance(x, dict):
            for y in x.values():
                walk(y)
    for blk in b.blocks:
        walk(blk[1])
        walk(blk[2])
    return out
