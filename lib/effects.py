"""Field write-set analysis: which first-level fields of `*param` may a function write (directly, by handing
out a `&mut` borrow of the field, or transitively through workspace callees that receive the whole object).

W(f, i) = set of field names of the pointee of parameter i that f may write, or {'*'} when the whole object
escapes into code we cannot see.  Flow-insensitive over the body; sound for "may write" under the assumption
that shared borrows do not write (interior mutability is listed as an assumption by the callers)."""


def _base_fields(place):
    """place = [local, proj...] -> (local, [field names after the first deref]) or None"""
    return place[0], place[1:]


class WriteSets:
    def __init__(self, F):
        self.F = F
        self.memo = {}
        self.inprogress = set()

    def writes(self, fid, param):
        """first-level fields of *param possibly written by function `fid`"""
        key = (fid, param)
        if key in self.memo:
            return self.memo[key]
        if key in self.inprogress:
            return set()  # recursion: fixpoint from below (callers iterate)
        b = self.F.bodies.get(fid)
        if b is None:
            return None  # unknown callee
        self.inprogress.add(key)
        # iterate to a fixpoint for recursive cycles
        prev = None
        res = set()
        for _ in range(6):
            res = self._compute(b, param)
            if res == prev:
                break
            prev = res
            self.memo[key] = res
        self.inprogress.discard(key)
        self.memo[key] = res
        return res

    def _compute(self, b, param):
        # pointers: local -> set of field-path prefixes ('' = the whole object, 'f' = inside field f)
        pts = {param: {""}}
        out = set()
        changed = True
        rounds = 0

        def target_of(place):
            """if `place` lies inside the tracked object return the set of first-level fields ('' = whole)"""
            loc = place[0]
            if loc not in pts:
                return None
            proj = place[1:]
            if not proj or proj[0] != "*":
                # the pointer local itself (not through deref)
                return ("ptr", pts[loc])
            res = set()
            for base in pts[loc]:
                if base != "":
                    res.add(base)
                    continue
                f = None
                for e in proj[1:]:
                    if isinstance(e, list) and e[0] == "f":
                        f = e[2] if e[2] is not None else "#%d" % e[1]
                        break
                    if isinstance(e, list) and e[0] == "d":
                        continue
                    break
                res.add(f if f is not None else "")
            return ("in", res)

        while changed and rounds < 10:
            changed = False
            rounds += 1
            for blk in b.blocks:
                if blk[0]:
                    continue
                for st in blk[1]:
                    if st[0] != "a":
                        continue
                    dst, rv = st[1], st[2]
                    # direct write through the pointer
                    t = target_of(dst)
                    if t and t[0] == "in":
                        for f in t[1]:
                            if f not in out:
                                out.add(f)
                                changed = True
                    k = rv[0]
                    src_place = None
                    mutable = False
                    if k == "ref":
                        src_place = rv[2]
                        mutable = rv[1] == "m"
                    elif k == "ptr":
                        src_place = rv[1]
                        mutable = True
                    elif k in ("use", "cast"):
                        op = rv[1] if k == "use" else rv[2]
                        if op[0] in ("c", "m"):
                            src_place = op[1]
                    elif k == "cfd":
                        src_place = rv[1]
                    if src_place is None:
                        continue
                    t = target_of(src_place)
                    if not t:
                        continue
                    if k == "ref" or k == "ptr":
                        if t[0] == "in":
                            if mutable:
                                for f in t[1]:
                                    if f not in out and f != "":
                                        out.add(f)
                                        changed = True
                                if len(dst) == 1:
                                    cur = pts.setdefault(dst[0], set())
                                    if not t[1] <= cur:
                                        cur |= t[1]
                                        changed = True
                        # `&mut ptr_local` (a reference to the pointer itself) is not tracked
                    else:
                        # copy/move of a pointer value
                        if t[0] == "ptr" and len(dst) == 1 and self._is_mut_ptr(b, dst[0]):
                            cur = pts.setdefault(dst[0], set())
                            if not t[1] <= cur:
                                cur |= t[1]
                                changed = True
                term = blk[2]
                if term[0] == "call":
                    c = term[1]
                    callee = c.get("r") or c.get("f")
                    for ai, a in enumerate(c["a"]):
                        if a[0] not in ("c", "m"):
                            continue
                        pl = a[1]
                        if len(pl) != 1 or pl[0] not in pts:
                            continue
                        if not self._is_mut_ptr(b, pl[0]):
                            continue
                        for base in list(pts[pl[0]]):
                            if base != "":
                                continue  # inside a field: already counted when the &mut was taken
                            w = self._callee_writes(callee, c, ai + 1)
                            if w is None:
                                w = {"*"}
                            for f in w:
                                if f not in out:
                                    out.add(f)
                                    changed = True
                        # a returned reference derived from the argument keeps pointing into the object
                        d = c["d"]
                        if len(d) == 1 and "&mut" in b.local_ty_str(d[0]):
                            cur = pts.setdefault(d[0], set())
                            add = set()
                            for base in pts[pl[0]]:
                                if base == "":
                                    rf = self._returns_field(callee)
                                    add |= rf if rf else {""}
                                else:
                                    add.add(base)
                            if not add <= cur:
                                cur |= add
                                changed = True
        if "" in out:
            # a direct store to the whole object (`*self = ..`) writes every field
            out.discard("")
            out.add("*")
        return out

    def _is_mut_ptr(self, b, local):
        s = b.local_ty_str(local)
        return s.startswith("&mut ") or s.startswith("*mut ") or "&mut" in s

    def _callee_writes(self, callee, c, param):
        F = self.F
        if callee in F.bodies:
            return self.writes(callee, param)
        # unresolved trait method: union over workspace impls
        impls = F.trait_impls().get(c.get("f"))
        if impls:
            res = set()
            for i in impls:
                w = self.writes(i, param)
                if w is None:
                    return None
                res |= w
            return res
        return None

    def _returns_field(self, callee):
        """for `fn get_x_mut(&mut self) -> &mut X { &mut self.x }` style accessors: the field set returned"""
        b = self.F.bodies.get(callee)
        if b is None:
            return None
        res = set()
        for blk in b.blocks:
            for st in blk[1]:
                if st[0] == "a" and st[2][0] == "ref" and st[2][1] == "m":
                    pl = st[2][2]
                    if pl[0] == 1 and len(pl) >= 3 and pl[1] == "*" and isinstance(pl[2], list) and pl[2][0] == "f":
                        res.add(pl[2][2])
        return res
