"""Branch-on-call-result helper: which CFG edge is taken when a bool-returning call yields true/false."""


def bool_branch(b, call_bb):
    """for a call whose bool result is tested right after it: returns (true_target, false_target) or None.
    Handles `if f()`, `if !f()` (one Not), and copies of the result local."""
    c = b.blocks[call_bb][2][1]
    if len(c["d"]) != 1 or c["t"] is None:
        return None
    val = {c["d"][0]: False}  # local -> negated?
    bb = c["t"]
    for _ in range(6):
        blk = b.blocks[bb]
        for st in blk[1]:
            if st[0] != "a" or len(st[1]) != 1:
                continue
            rv = st[2]
            if rv[0] == "use" and rv[1][0] in ("c", "m") and len(rv[1][1]) == 1 and rv[1][1][0] in val:
                val[st[1][0]] = val[rv[1][1][0]]
            elif rv[0] == "un" and rv[1] == "Not" and rv[2][0] in ("c", "m") and len(rv[2][1]) == 1 and rv[2][1][0] in val:
                val[st[1][0]] = not val[rv[2][1][0]]
        t = blk[2]
        if t[0] == "sw" and t[1][0] in ("c", "m") and len(t[1][1]) == 1 and t[1][1][0] in val:
            neg = val[t[1][1][0]]
            zero = None
            for v, tb in t[2]:
                if v == 0:
                    zero = tb
            other = t[3]
            if zero is None:
                return None
            # sw value 0 -> `zero`, otherwise -> `other`
            t_true, t_false = other, zero
            if neg:
                t_true, t_false = t_false, t_true
            return t_true, t_false
        if t[0] in ("goto", "fe", "fu"):
            bb = t[1]
            continue
        return None
    return None
