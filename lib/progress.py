"""Progress (token consumption) analysis for termination arguments in the parser."""
import cfgutil

BUMPS = ("emmylua_parser::parser::lua_parser::LuaParser::bump", "emmylua_parser::parser::lua_doc_parser::LuaDocParser::bump",
         "emmylua_parser::text::reader::Reader::bump", "emmylua_parser::text::reader::Reader::eat_when",
         "emmylua_parser::text::reader::Reader::eat_while", "emmylua_parser::lexer::lua_doc_lexer::LuaDocLexer::lex",
         "emmylua_parser::lexer::lua_lexer::LuaLexer::lex")


def name(c):
    return c.get("r") or c.get("f") or ""


class Progress:
    def __init__(self, F, scope):
        self.F = F
        self.scope = scope  # dict id -> body
        self.mp = {fid: False for fid in scope}
        self._solve()

    def is_progress_call(self, c):
        n = name(c)
        if n in BUMPS or n.endswith("::bump"):
            return True
        if n in self.mp and self.mp[n]:
            return True
        # finite iterators: each next() consumes an element of a finite sequence
        if (c.get("f") or "").endswith("Iterator::next") or (c.get("f") or "").endswith("DoubleEndedIterator::next_back"):
            return True
        return False

    def progress_blocks(self, b):
        return {bb for bb, c in b.calls() if self.is_progress_call(c)}

    def _solve(self):
        changed = True
        rounds = 0
        while changed and rounds < 30:
            changed = False
            rounds += 1
            for fid, b in self.scope.items():
                if self.mp[fid]:
                    continue
                pb = {bb for bb, c in b.calls() if self.is_progress_call(c) and not (c.get("f") or "").endswith("Iterator::next")}
                rets = set(b.returns())
                if not rets:
                    continue
                if cfgutil.paths_avoiding(b.succ_map(), 0, rets, pb) is None:
                    self.mp[fid] = True
                    changed = True

    def nonprogress_cycles(self, b):
        """natural loops that have a cycle through the header avoiding every progress block; returns list of (header, witness)"""
        succ = b.succ_map()
        loops = cfgutil.natural_loops(succ, 0)
        pb = self.progress_blocks(b)
        out = []
        for h, body in loops.items():
            # search a path h -> ... -> h inside body avoiding pb
            sub = {n: [s for s in succ[n] if s in body] for n in body}
            if h in pb:
                continue
            found = None
            for s in sub[h]:
                if s in pb:
                    continue
                p = cfgutil.paths_avoiding(sub, s, {h}, pb) if s != h else [h]
                if p is not None:
                    found = [h] + p
                    break
            if found:
                out.append((h, found))
        return out
