"""Fact cache and loader for the emmyfacts MIR-lite output.

ensure_facts() hashes /repo's current working tree and (re)runs the rustc_private driver over the whole
workspace iff no fact set for that hash exists, so every check decides on facts extracted from exactly the
tree it is asked about.  Nothing here executes code of the repository.
"""
import fcntl
import hashlib
import json
import os
import shutil
import subprocess
import sys
import time

VERIF = os.path.dirname(os.path.dirname(os.path.abspath(__file__)))
REPO = os.environ.get("VERIF_REPO", "/repo")
CACHE = os.path.join(VERIF, ".cache")
DRIVER = os.path.join(VERIF, "emmyfacts", "target", "release", "emmyfacts")
SYNSCAN = os.path.join(VERIF, "synscan", "target", "release", "synscan")

SRC_EXT = (".rs", ".toml", ".lock", ".yml", ".yaml", ".json", ".lua", ".md", ".tera", ".txt")

WORKSPACE_CRATES = [
    "emmylua_parser", "emmylua_parser_desc", "emmylua_code_analysis", "emmylua_ls", "emmylua_formatter",
    "emmylua_check", "emmylua_doc_cli", "schema_to_emmylua", "emmylua_diagnostic_macro",
]


def log(*a):
    print("[facts]", *a, file=sys.stderr, flush=True)


def tree_hash():
    """sha1 over every tracked or untracked (not ignored) build input under /repo."""
    out = subprocess.run(
        ["git", "-C", REPO, "ls-files", "-co", "--exclude-standard", "-z"],
        check=True, capture_output=True).stdout
    files = sorted(f for f in out.decode().split("\0") if f and not f.startswith("target/"))
    h = hashlib.sha1()
    n = 0
    for f in files:
        # everything that can be a build input: sources, manifests, locale files, include!d resources
        if not (f.endswith(SRC_EXT) or "/resources/" in f or "/locales/" in f):
            continue
        p = os.path.join(REPO, f)
        try:
            with open(p, "rb") as fh:
                data = fh.read()
        except (FileNotFoundError, IsADirectoryError):
            data = b"<deleted>"
        h.update(f.encode() + b"\0" + hashlib.sha1(data).digest())
        n += 1
    # the driver's own identity is part of the key
    try:
        st = os.stat(DRIVER)
        h.update(("drv:%d:%d" % (st.st_size, int(st.st_mtime))).encode())
    except FileNotFoundError:
        pass
    return h.hexdigest()[:20], n


def nightly_sysroot():
    return subprocess.run(["rustc", "+nightly", "--print", "sysroot"], check=True,
                          capture_output=True, text=True).stdout.strip()


def build_driver():
    if os.path.exists(DRIVER):
        src_m = max(os.path.getmtime(os.path.join(VERIF, "emmyfacts", "src", f))
                    for f in os.listdir(os.path.join(VERIF, "emmyfacts", "src")))
        if os.path.getmtime(DRIVER) >= src_m:
            return
    log("building emmyfacts driver")
    env = dict(os.environ, CARGO_NET_OFFLINE="true")
    subprocess.run(["cargo", "+nightly", "build", "--release", "--offline"],
                   cwd=os.path.join(VERIF, "emmyfacts"), check=True, env=env,
                   stdout=subprocess.DEVNULL, stderr=subprocess.PIPE)


def workspace_packages():
    out = subprocess.run(["cargo", "metadata", "--offline", "--no-deps", "--format-version", "1"],
                         cwd=REPO, check=True, capture_output=True, text=True,
                         env=dict(os.environ, CARGO_NET_OFFLINE="true")).stdout
    md = json.loads(out)
    names = set()
    for p in md["packages"]:
        names.add(p["name"])
        for t in p["targets"]:
            names.add(t["name"])
    return names


def _clear_member_fingerprints(target_dir, names):
    removed = 0
    for prof in ("debug",):
        fp = os.path.join(target_dir, prof, ".fingerprint")
        if not os.path.isdir(fp):
            continue
        for d in os.listdir(fp):
            base = d.rsplit("-", 1)[0]
            if base in names or base.replace("-", "_") in names:
                shutil.rmtree(os.path.join(fp, d), ignore_errors=True)
                removed += 1
    return removed


def run_extraction(out_dir, all_targets=False):
    build_driver()
    target = os.path.join(CACHE, "target-all" if all_targets else "target")
    os.makedirs(target, exist_ok=True)
    names = workspace_packages()
    _clear_member_fingerprints(target, names)
    tmp_out = out_dir + ".partial"
    shutil.rmtree(tmp_out, ignore_errors=True)
    os.makedirs(tmp_out)
    env = dict(os.environ)
    env.update({
        "LD_LIBRARY_PATH": os.path.join(nightly_sysroot(), "lib") + ":" + env.get("LD_LIBRARY_PATH", ""),
        "RUSTFLAGS": "-Zmir-opt-level=0 -Awarnings",
        "RUSTC_WORKSPACE_WRAPPER": DRIVER,
        "CARGO_TARGET_DIR": target,
        "CARGO_NET_OFFLINE": "true",
        # incremental compilation would mark mir_borrowck green and skip the override for unchanged bodies
        "CARGO_INCREMENTAL": "0",
        "EMMYFACTS_OUT": tmp_out,
    })
    env.pop("RUSTC_WRAPPER", None)
    cmd = ["cargo", "+nightly", "check", "--offline", "--workspace"]
    if all_targets:
        cmd.append("--all-targets")
    t0 = time.time()
    log("extracting facts:", " ".join(cmd))
    p = subprocess.run(cmd, cwd=REPO, env=env, capture_output=True, text=True)
    if p.returncode != 0:
        sys.stderr.write(p.stderr[-6000:])
        raise RuntimeError("fact extraction failed: the working tree does not build under cargo +nightly check")
    files = [f for f in os.listdir(tmp_out) if f.endswith(".facts.jsonl")]
    need = {"emmylua_parser-rlib", "emmylua_code_analysis-rlib", "emmylua_ls-rlib", "emmylua_formatter-rlib",
            "emmylua_parser_desc-rlib", "emmylua_check-rlib", "emmylua_doc_cli-rlib", "schema_to_emmylua-rlib",
            "luafmt-executable", "emmylua_ls-executable", "emmylua_check-executable"}
    have = {f[:-len(".facts.jsonl")] for f in files}
    missing = need - have
    if missing:
        raise RuntimeError("fact extraction incomplete, missing fact files: %s" % sorted(missing))
    # every fact file must contain all bodies of its crate (guards against a cache that skipped the driver)
    floors = {"emmylua_parser-rlib": 1800, "emmylua_code_analysis-rlib": 4000, "emmylua_ls-rlib": 1500,
              "emmylua_formatter-rlib": 900, "emmylua_parser_desc-rlib": 250}
    for f in files:
        stem = f[:-len(".facts.jsonl")]
        if stem in floors:
            with open(os.path.join(tmp_out, f)) as fh:
                hdr = json.loads(fh.readline())
            if hdr.get("owners", 0) < floors[stem]:
                raise RuntimeError("fact file %s has only %s body owners (expected >= %d): driver was bypassed"
                                   % (f, hdr.get("owners"), floors[stem]))
    shutil.rmtree(out_dir, ignore_errors=True)
    os.rename(tmp_out, out_dir)
    log("extracted %d fact files in %.1fs" % (len(files), time.time() - t0))


def run_synscan(out_dir):
    """token-level facts (t! invocations, dispatch macro tables, locale files)"""
    if not os.path.exists(SYNSCAN):
        src = os.path.join(VERIF, "synscan")
        if not os.path.isdir(src):
            return
        log("building synscan")
        subprocess.run(["cargo", "build", "--release", "--offline"], cwd=src, check=True,
                       env=dict(os.environ, CARGO_NET_OFFLINE="true"),
                       stdout=subprocess.DEVNULL, stderr=subprocess.PIPE)
    out = os.path.join(out_dir, "synscan.jsonl")
    with open(out + ".tmp", "w") as fh:
        subprocess.run([SYNSCAN, REPO], check=True, stdout=fh)
    os.rename(out + ".tmp", out)


def ensure_facts(all_targets=False):
    # fact sets of scratch trees (VERIF_REPO) live apart so that they never evict the sets of /repo itself
    sub = "facts" if os.path.realpath(REPO) == "/repo" else "facts-scratch"
    keep = 4 if sub == "facts" else 2
    os.makedirs(os.path.join(CACHE, sub), exist_ok=True)
    lock_path = os.path.join(CACHE, "lock")
    with open(lock_path, "w") as lock:
        fcntl.flock(lock, fcntl.LOCK_EX)
        h, nfiles = tree_hash()
        d = os.path.join(CACHE, sub, h + ("-all" if all_targets else ""))
        if not os.path.isdir(d):
            run_extraction(d, all_targets)
            # keep the cache small: the most recent fact sets per flavour
            root = os.path.join(CACHE, sub)
            same = [os.path.join(root, o) for o in os.listdir(root)
                    if o.endswith("-all") == all_targets and not o.endswith(".partial")]
            same.sort(key=os.path.getmtime, reverse=True)
            for full in same[keep:]:
                if full != d:
                    shutil.rmtree(full, ignore_errors=True)
        else:
            os.utime(d, None)
        if not os.path.exists(os.path.join(d, "synscan.jsonl")) and os.path.isdir(os.path.join(VERIF, "synscan")):
            run_synscan(d)
        return d, h, nfiles


# ------------------------------------------------------------------------------------------------------
# loader


class Body:
    __slots__ = ("d", "types", "id", "kind", "crate", "file", "line", "blocks", "locals", "argc", "_succ",
                 "_pred", "target")

    def __init__(self, d, types, target):
        self.d = d
        self.types = types
        self.id = d["id"]
        self.kind = d["kind"]
        self.crate = d["crate"]
        self.file = d["file"]
        self.line = d["line"]
        self.blocks = d["blocks"]
        self.locals = d["locals"]
        self.argc = d["argc"]
        self._succ = None
        self._pred = None
        self.target = target

    def get(self, k, default=None):
        return self.d.get(k, default)

    # ---- types
    def ty(self, ix):
        return self.types[ix]

    def ty_str(self, ix):
        return self.types[ix][0]

    def local_ty(self, l):
        return self.types[self.locals[l][0]]

    def local_ty_str(self, l):
        return self.types[self.locals[l][0]][0]

    def ty_str_op(self, op):
        """type string of an operand (the local's type for plain locals; constants carry their type index)"""
        if op[0] in ("c", "m"):
            return self.local_ty_str(op[1][0]) if len(op[1]) == 1 else ""
        if op[0] == "k" and len(op) > 3 and isinstance(op[3], int):
            return self.types[op[3]][0]
        return ""

    def local_name(self, l):
        return self.locals[l][1]

    # ---- cfg
    def term(self, bb):
        return self.blocks[bb][2]

    def stmts(self, bb):
        return self.blocks[bb][1]

    def is_cleanup(self, bb):
        return self.blocks[bb][0]

    def succs(self, bb, unwind=False):
        t = self.blocks[bb][2]
        k = t[0]
        if k == "goto":
            return [t[1]]
        if k == "sw":
            return [b for _, b in t[2]] + [t[3]]
        if k == "call":
            c = t[1]
            r = []
            if c["t"] is not None:
                r.append(c["t"])
            if unwind and c["u"] is not None:
                r.append(c["u"])
            return r
        if k == "drop":
            r = [t[2]]
            if unwind and t[3] is not None:
                r.append(t[3])
            return r
        if k == "assert":
            r = [t[4]]
            if unwind and t[5] is not None:
                r.append(t[5])
            return r
        if k == "yield":
            r = [t[2]]
            if unwind and t[3] is not None:
                r.append(t[3])
            return r
        if k == "fe":
            return [t[1]]  # the imaginary edge is not a real control-flow edge
        if k == "fu":
            return [t[1]]
        return []

    def succ_map(self):
        if self._succ is None:
            self._succ = [self.succs(i) for i in range(len(self.blocks))]
        return self._succ

    def pred_map(self):
        if self._pred is None:
            p = [[] for _ in self.blocks]
            for i, ss in enumerate(self.succ_map()):
                for s in ss:
                    p[s].append(i)
            self._pred = p
        return self._pred

    def calls(self):
        """yield (bb, callinfo) for every call terminator in non-cleanup blocks"""
        for i, b in enumerate(self.blocks):
            if b[0]:
                continue
            t = b[2]
            if t[0] == "call":
                yield i, t[1]

    def callee(self, c):
        return c.get("r") or c.get("f")

    def returns(self):
        return [i for i, b in enumerate(self.blocks) if b[2][0] == "ret" and not b[0]]

    def loc(self, line=None):
        return "%s:%s" % (self.file, line if line is not None else self.line)


class Facts:
    def __init__(self, dir_, crates=None, include_bins=True):
        self.dir = dir_
        self.bodies = {}
        self.adts = {}
        self.impls = []
        self.statics = {}
        self.traits = {}
        self.crates = {}
        self.dups = []
        self.files_loaded = []
        for f in sorted(os.listdir(dir_)):
            if not f.endswith(".facts.jsonl"):
                continue
            stem = f[:-len(".facts.jsonl")]
            cname = stem.rsplit("-", 1)[0] if not stem.endswith("-test") else stem[:-5].rsplit("-", 1)[0]
            if crates is not None and cname not in crates:
                continue
            if not include_bins and "-executable" in stem:
                continue
            self._load(os.path.join(dir_, f), stem)

    def _load(self, path, target):
        types = None
        self.files_loaded.append(os.path.basename(path))
        with open(path) as fh:
            for line in fh:
                d = json.loads(line)
                k = d["k"]
                if k == "types":
                    types = d["t"]
                    break
        with open(path) as fh:
            for line in fh:
                d = json.loads(line)
                k = d["k"]
                if k == "body":
                    b = Body(d, types, target)
                    if b.id in self.bodies:
                        self.dups.append(b.id)
                        # keep the first; lib before bin because of sorted() order
                        continue
                    self.bodies[b.id] = b
                elif k == "adt":
                    d["_types"] = types
                    self.adts.setdefault(d["path"], d)
                elif k == "impl":
                    d["_types"] = types
                    d["_target"] = target
                    self.impls.append(d)
                elif k == "static":
                    d["_types"] = types
                    self.statics.setdefault(d["path"], d)
                elif k == "trait":
                    self.traits.setdefault(d["path"], d)
                elif k == "crate":
                    self.crates[target] = d

    # trait method -> list of impl method ids in the workspace
    def trait_impls(self):
        if not hasattr(self, "_ti"):
            ti = {}
            for im in self.impls:
                if not im["trait"]:
                    continue
                for item, trait_item, kind in im["items"]:
                    if trait_item:
                        ti.setdefault(trait_item, []).append(item)
            self._ti = ti
        return self._ti

    def impls_of(self, trait_path):
        return [im for im in self.impls if im["trait"] == trait_path]


_FACTS_CACHE = {}


def load(crates=None, all_targets=False):
    d, h, n = ensure_facts(all_targets)
    key = (d, tuple(sorted(crates)) if crates else None)
    if key not in _FACTS_CACHE:
        _FACTS_CACHE[key] = Facts(d, crates)
    f = _FACTS_CACHE[key]
    f.tree_hash = h
    f.n_source_files = n
    return f
