"""Hash-order taint: can the *order* of a sequence value derive from iterating a randomly seeded hash container?

Backward, use-site aware provenance over MIR-lite:
  sources     iteration APIs of std/hashbrown HashMap/HashSet (iter, keys, values, drain, into_iter, ...)
  propagation iterator adaptors, collect/extend/push into ordered containers, copies, clones, function returns
              (workspace callees are followed through their return value), parameters (all callers), closures
  sanitizers  sort*/sort_by*/sort_unstable* on the container at a point that dominates the use (kills earlier
              definitions), collecting into a hash/btree container, commutative reductions
A label is ('HASH', body id, line, callee).  Containers filled by `push`/`extend`/`insert` inside a loop are handled by
treating those calls as additional definitions of the receiver.
"""
import cfgutil
import dataflow

HASH_TYPES = ("hashbrown::map::HashMap", "hashbrown::set::HashSet", "std::collections::hash::map::HashMap",
              "std::collections::hash::set::HashSet", "std::collections::HashMap", "std::collections::HashSet")
ITER_METHODS = ("iter", "iter_mut", "keys", "values", "values_mut", "into_keys", "into_values", "drain", "into_iter",
                "union", "difference", "intersection", "symmetric_difference", "extract_if", "par_iter")
ORDER_FREE_RESULT = ("hashbrown::map::HashMap", "hashbrown::set::HashSet", "std::collections::hash::map::HashMap",
                     "std::collections::hash::set::HashSet", "alloc::collections::btree::map::BTreeMap",
                     "alloc::collections::btree::set::BTreeSet")
REDUCTIONS = ("::any", "::all", "::count", "::sum", "::product", "::min", "::max", "::len", "::is_empty", "::contains",
              "::contains_key", "::min_by", "::max_by", "::min_by_key", "::max_by_key", "::is_some", "::is_none")
SORTS = ("::sort", "::sort_by", "::sort_by_key", "::sort_unstable", "::sort_unstable_by", "::sort_unstable_by_key",
         "::sort_by_cached_key")
MUTATORS = ("::push", "::extend", "::insert", "::push_back", "::push_front", "::append", "::push_str", "::extend_from_slice")
SEQ_TYPES = ("alloc::vec::Vec", "alloc::collections::vec_deque::VecDeque", "alloc::string::String", "smallvec::SmallVec",
             "alloc::boxed::Box", "core::option::Option", "alloc::vec::into_iter::IntoIter", "core::slice::iter::Iter",
             "indexmap::map::IndexMap")
PASS_REF = ("::deref_mut", "::deref", "::as_mut_slice", "::as_mut", "::as_slice", "::borrow_mut", "::as_ref")


def is_hash_iter(callee):
    """callee path of a hash container iteration API"""
    if not callee:
        return False
    m = callee.rsplit("::", 1)
    if len(m) != 2 or m[1] not in ITER_METHODS:
        return False
    head = m[0]
    # `<&hashbrown::map::HashMap<K, V, S, A> as IntoIterator>` / `hashbrown::map::HashMap::<K, V, S, A>`
    return any(h in head for h in HASH_TYPES) and "Entry" not in head and "Iter" not in head.split("<")[0]


class OrderTaint:
    def __init__(self, F, max_depth=60):
        self.F = F
        self.memo = {}
        self.stack = set()
        self.max_depth = max_depth
        self._callers = None
        self._closures = None
        self._idom = {}
        self._extra = {}
        self._loops = {}

    # ---- indices
    def callers(self):
        if self._callers is None:
            idx = {}
            for b in self.F.bodies.values():
                for bb, c in b.calls():
                    cal = c.get("r") or c.get("f")
                    if cal:
                        idx.setdefault(cal, []).append((b, bb, c))
            self._callers = idx
        return self._callers

    def closure_sites(self):
        if self._closures is None:
            idx = {}
            for b in self.F.bodies.values():
                for bi, blk in enumerate(b.blocks):
                    for st in blk[1]:
                        if st[0] == "a" and st[2][0] == "agg" and st[2][1] in ("closure", "coroutine", "coroutine_closure"):
                            idx.setdefault(st[2][2], []).append((b, bi, st[2][4]))
            self._closures = idx
        return self._closures

    def idom(self, b):
        if b.id not in self._idom:
            self._idom[b.id] = cfgutil.dominators(b.succ_map(), 0)
        return self._idom[b.id]

    def _ref_target(self, b, local, depth=0):
        """the local a `&mut`/& reference local points to (through reborrows and deref_mut style calls)"""
        if depth > 6:
            return None
        for d in dataflow.def_sites(b).get(local, []):
            if d[0] == "stmt":
                rv = d[3]
                if rv[0] == "ref":
                    pl = rv[2]
                    if len(pl) == 1:
                        return pl[0]
                    if all(e == "*" for e in pl[1:]):
                        return self._ref_target(b, pl[0], depth + 1) or pl[0]
                    return pl[0]
                if rv[0] == "use" and rv[1][0] in ("c", "m") and len(rv[1][1]) == 1:
                    return self._ref_target(b, rv[1][1][0], depth + 1)
            elif d[0] == "call":
                c = d[2]
                callee = c.get("r") or c.get("f") or ""
                if callee.endswith(PASS_REF) and c["a"] and c["a"][0][0] in ("c", "m") and len(c["a"][0][1]) == 1:
                    return self._ref_target(b, c["a"][0][1][0], depth + 1)
        return None

    def _total_sort(self, b, c):
        """a sort sanitizes only if its key can be total on the elements: `sort_by_key(|x| <constants chosen by a
        match/if>)` ranks elements into a few classes and (being stable) keeps the incoming order inside a class"""
        callee = c.get("r") or c.get("f") or ""
        if not callee.endswith(("_by_key", "_by_cached_key")) or len(c["a"]) < 2:
            return True
        l = dataflow.operand_local(c["a"][1])
        if l is None:
            return True
        t = b.local_ty(l)
        if t[2] != "closure" or t[3] not in self.F.bodies:
            return True
        kb = self.F.bodies[t[3]]
        # a key that went through a many-to-one transformation is not total either: elements that collide keep their incoming order
        LOSSY = ("::to_lowercase", "::to_uppercase", "::to_ascii_lowercase", "::to_ascii_uppercase", "::len", "::trim", "::trim_start",
                 "::trim_end", "::count", "::is_empty", "::kind", "::get_kind", "::to_lowercase_lossy", "::chars", "::first", "::last")
        for _, kc in kb.calls():
            if (kc.get("r") or kc.get("f") or "").endswith(LOSSY):
                return False
        consts = 0
        other = 0
        for r in dataflow.roots(kb, 0):
            if r[0] == "const":
                consts += 1
            else:
                other += 1
        return not (consts >= 2 and other == 0)

    def extra_defs(self, b):
        """local -> [(bb, kind, callinfo)] for sort (kind 'sort') and mutator calls (kind 'mut') on that local"""
        if b.id in self._extra:
            return self._extra[b.id]
        res = {}
        for bb, c in b.calls():
            callee = c.get("r") or c.get("f") or ""
            kind = None
            if callee.endswith(SORTS) or callee.endswith("::dedup"):
                kind = "sort" if not callee.endswith("::dedup") else None
            elif callee.endswith(MUTATORS):
                kind = "mut"
            if not kind or not c["a"] or c["a"][0][0] not in ("c", "m") or len(c["a"][0][1]) != 1:
                continue
            tgt = self._ref_target(b, c["a"][0][1][0])
            idx_op = None
            if tgt is not None:
                # receiver reached through `container[i]` (IndexMut::index_mut): attribute the mutation to the
                # container and remember the index operand (slot-selected-by-iterated-value idiom)
                for d in dataflow.def_sites(b).get(tgt, []):
                    if d[0] == "call" and (d[2].get("f") or "").endswith("IndexMut::index_mut") and len(d[2]["a"]) == 2:
                        a0 = d[2]["a"][0]
                        if a0[0] in ("c", "m") and len(a0[1]) == 1:
                            t2 = self._ref_target(b, a0[1][0])
                            if t2 is not None:
                                tgt = t2
                                idx_op = (d[1], d[2]["a"][1])
            if tgt is not None:
                res.setdefault(tgt, []).append((bb, kind, c, idx_op))
        self._extra[b.id] = res
        return res

    # ---- api
    def operand(self, b, op, use_bb, depth=0):
        if op[0] in ("c", "m"):
            return self.place(b, op[1], use_bb, depth)
        return set()

    def place(self, b, place, use_bb, depth=0):
        if len(place) > 1:
            up = self._upvar(b, place, depth)
            if up is not None:
                return up
            # a field of some object: the order of a stored sequence does not derive from the provenance of the
            # object that holds it.  Stores into fields are separate abstract locations which this analysis does not
            # follow (stated in the evidence); iterating a hash-typed field is still a source at the iteration call.
            # (enum payloads `(x as Some).0` and tuple components are transparent)
            prev = None
            for e in place[1:]:
                if isinstance(e, (list, tuple)) and e[0] == "f":
                    named = e[2] is not None and not str(e[2]).isdigit()
                    after_downcast = isinstance(prev, (list, tuple)) and prev[0] == "d"
                    if named and not after_downcast:
                        return set()
                prev = e
        return self.local(b, place[0], use_bb, depth)

    def _upvar(self, b, place, depth):
        if b.kind not in ("closure", "coroutine") or place[0] != 1:
            return None
        fld = None
        for e in place[1:]:
            if isinstance(e, (list, tuple)) and e[0] == "f":
                fld = e[1]
                break
            if e == "*":
                continue
            break
        if fld is None:
            return None
        out = set()
        for pb, pbb, ops in self.closure_sites().get(b.id, []):
            if fld < len(ops):
                out |= self.operand(pb, ops[fld], pbb, depth + 1)
        return out

    # Evaluation is a Kleene iteration: `local()` returns the current approximation for keys that are already
    # being evaluated in this pass; `query()` repeats passes until no value changes (values are small label sets).
    def query(self, fn):
        """run fn() (which calls operand/local) to a fixpoint and return its last result"""
        res = set()
        for _ in range(12):
            self.visited = set()
            self.changed = False
            res = fn()
            if not self.changed:
                break
        return res

    def local(self, b, local, use_bb, depth=0):
        key = (b.id, local, use_bb)
        if not hasattr(self, "visited"):
            self.visited = set()
            self.changed = False
        if key in self.visited:
            return self.memo.get(key, set())
        self.visited.add(key)
        out = set()
        idom = self.idom(b)
        defs = [(d[1], d) for d in dataflow.def_sites(b).get(local, [])]
        extra = self.extra_defs(b).get(local, [])
        # sanitizing sorts that dominate the use kill every definition that happens before them
        kills = [bb for bb, kind, c, _ in extra if kind == "sort" and use_bb is not None and bb != use_bb
                 and cfgutil.dominates(idom, bb, use_bb) and self._total_sort(b, c)]

        succ_ = b.succ_map()

        def killed(dbb):
            # the definition happens before the (use-dominating) sort and cannot happen again after it
            for k in kills:
                if dbb == k:
                    continue
                if k in cfgutil.reachable(succ_, dbb) and dbb not in cfgutil.reachable(succ_, k):
                    return True
            return False

        for dbb, d in defs:
            if killed(dbb):
                continue
            if d[0] == "call":
                out |= self._call(b, dbb, d[2], depth)
            else:
                out |= self._rvalue(b, dbb, d[3], depth)
        for bb, kind, c, idx_op in extra:
            if kind == "mut" and not killed(bb):
                # the pushed / inserted values: order of arrival matters when the call sits in a tainted loop
                # merging another sequence in (extend/append) imports that sequence's order; pushing a single element
                # does not: which element arrives when is the loop driver's business
                if (c.get("r") or c.get("f") or "").endswith(("::extend", "::append", "::extend_from_slice")):
                    for a in c["a"][1:]:
                        out |= self.operand(b, a, bb, depth + 1)
                driver = self._loop_driver(b, bb, local, c, depth)
                if idx_op is not None and driver:
                    # `slots[f(x)].push(..)` inside `for x in hash_iter`: the slot, not the arrival order, is chosen
                    # by the iterated value; arrival order within a slot follows the enclosing deterministic loop
                    il = self.operand(b, idx_op[1], idx_op[0], depth + 1)
                    if {d for d in driver if d[0] == "HASH"} <= il:
                        driver = set()
                # remember which container materialised the hash order (used for exact exception keys)
                out |= {d if len(d) > 4 else d + (b.local_name(local) or "_%d" % local,) for d in driver}
        if 1 <= local <= b.argc and not kills:
            out |= self._arg(b, local, depth)
        if self.memo.get(key) != out:
            self.memo[key] = out
            self.changed = True
        return out

    def _loop_driver(self, b, bb, local, c, depth):
        """a push that is control dependent on `next()` of a tainted iterator taints the container, unless the
        container slot is selected by the iterated value (adjacency[idx].push(..) idiom)"""
        out = set()
        if b.id not in self._loops:
            self._loops[b.id] = cfgutil.natural_loops(b.succ_map(), 0)
        loops = self._loops[b.id]
        for h, body in loops.items():
            if bb not in body:
                continue
            for x in body:
                t = b.blocks[x][2]
                if t[0] == "call" and (t[1].get("f") or "").endswith("Iterator::next") and t[1]["a"]:
                    a = t[1]["a"][0]
                    if a[0] in ("c", "m") and len(a[1]) == 1:
                        it = self._ref_target(b, a[1][0])
                        if it is not None:
                            out |= self.local(b, it, x, depth + 1)
        return out

    def _rvalue(self, b, bb, rv, depth):
        k = rv[0]
        if k in ("use", "cast"):
            op = rv[1] if k == "use" else rv[2]
            return self.operand(b, op, bb, depth + 1)
        if k in ("ref", "cfd", "ptr"):
            pl = rv[2] if k in ("ref",) else rv[1]
            return self.place(b, pl, bb, depth + 1)
        if k == "agg":
            out = set()
            for op in rv[4]:
                out |= self.operand(b, op, bb, depth + 1)
            return out
        return set()

    def _call(self, b, bb, c, depth):
        callee = c.get("r") or c.get("f") or ""
        if is_hash_iter(callee) or is_hash_iter(c.get("f") or ""):
            # into_iter on a reference/owned hash container: check the receiver type
            return {("HASH", b.id, c["l"], callee)}
        if (c.get("f") or "").endswith("IntoIterator::into_iter") and c.get("ga"):
            ts = b.ty_str(c["ga"][0])
            if any(h in ts.split("<")[0] or ts.lstrip("&mut ").startswith(h) for h in HASH_TYPES):
                return {("HASH", b.id, c["l"], "into_iter on " + ts[:60])}
        if callee.endswith(REDUCTIONS) or callee.endswith("::from_residual"):
            return set()  # reductions; the residual of `?` (None / Err) carries no sequence
        # collecting into an order-free container
        d = c["d"]
        if len(d) == 1:
            t = b.local_ty(d[0])
            if t[2] == "adt" and t[3] in ORDER_FREE_RESULT and (callee.endswith("::collect") or callee.endswith("::from_iter")):
                return set()
        out = set()
        if callee in self.F.bodies:
            cb = self.F.bodies[callee]
            for r in cb.returns():
                out |= self.local(cb, 0, r, depth + 1)
            return out
        if not c.get("r") and c.get("f") in self.F.trait_impls():
            for im in self.F.trait_impls()[c["f"]]:
                cb = self.F.bodies.get(im)
                if cb:
                    for r in cb.returns():
                        out |= self.local(cb, 0, r, depth + 1)
            return out
        for a in c["a"]:
            out |= self.operand(b, a, bb, depth + 1)
        return out

    def _arg(self, b, n, depth):
        out = set()
        if b.kind in ("closure", "coroutine"):
            return out
        # parameters that are plain references to whole objects (self, db, context) carry no sequence order
        t = b.local_ty(n)
        is_seq = (t[2] == "adt" and (t[3] in SEQ_TYPES or any(b.ty(a)[3] in SEQ_TYPES for a in t[4]))) or \
            t[2] in ("slice", "array", "param", "alias", "dyn")
        if not is_seq:
            return out  # scalars, strings and plain object references carry no sequence order
        for cb, bb, c in self.callers().get(b.id, []):
            if n - 1 < len(c["a"]):
                out |= self.operand(cb, c["a"][n - 1], bb, depth + 1)
        return out
