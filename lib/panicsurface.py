"""Panic-surface audit (DESIGN.md 4.3): every panic-capable site in the functions reachable from a property's entry
points must be discharged by a recognised guard, by API knowledge, or by an entry of the audited table
(/verif/tables/panic_audit.json: key -> one line of reason, keyed without line numbers).  Anything else is a violation
naming the site and a call chain from an entry point.
"""
import json
import os
import cfgutil
import dataflow
import guards
import panics
import callgraph

VERIF = os.path.dirname(os.path.dirname(os.path.abspath(__file__)))


def load_table():
    p = os.path.join(VERIF, "tables", "panic_audit.json")
    if not os.path.exists(p):
        return {}
    with open(p) as fh:
        return json.load(fh)


def name(c):
    return c.get("r") or c.get("f") or ""


def _const_range_start(b, c):
    """for str/slice Index with a RangeFrom/Range argument built from constants: the constant start"""
    if len(c["a"]) < 2:
        return None
    l = dataflow.operand_local(c["a"][1])
    if l is None:
        return None
    for d in dataflow.def_sites(b).get(l, []):
        if d[0] == "stmt" and d[3][0] == "agg" and d[3][2] and "RangeFrom" in d[3][2]:
            ops = d[3][4]
            if ops and ops[0][0] == "k" and ops[0][1] == "int":
                return ops[0][2]
    return None


def _prefix_guard_len(b, call_bb, recv_local_roots):
    """largest ASCII literal length proven by a dominating `starts_with(lit)` true edge"""
    succ = b.succ_map()
    idom = cfgutil.dominators(succ, 0)
    best = 0
    for bb, c in b.calls():
        n = name(c)
        if not (n.endswith("::starts_with") and ("str" in n)):
            continue
        if len(c["a"]) < 2:
            continue
        pat = c["a"][1]
        lit = None
        if pat[0] == "k" and pat[1] == "str":
            lit = pat[2]
        elif pat[0] == "k" and pat[1] == "char":
            lit = pat[2]
        if lit is None or not all(ord(ch) < 128 for ch in lit):
            continue
        br = guards.bool_branch(b, bb)
        if br is None:
            continue
        t_true = br[0]
        # the slice must be reachable only through the true edge: true target dominates the slice block
        if cfgutil.dominates(idom, t_true, call_bb) and call_bb not in cfgutil.reachable(succ, br[1]) - cfgutil.reachable(succ, t_true):
            best = max(best, len(lit.encode()))
    return best


def recognise(F, b, bb, kind):
    """returns a reason string if the site is discharged by a recognised idiom / API knowledge"""
    t = b.blocks[bb][2]
    if t[0] != "call":
        return None
    c = t[1]
    if kind == "str-slice":
        n = _const_range_start(b, c)
        if n is not None:
            if n == 0:
                return "slice from 0"
            g = _prefix_guard_len(b, bb, None)
            if g >= n:
                return "constant offset %d after starts_with of a %d-byte ASCII literal" % (n, g)
        return None
    if kind in ("unwrap", "expect"):
        # Regex::new(<literal>).unwrap(), and values just constructed as Some/Ok
        l = dataflow.operand_local(c["a"][0]) if c["a"] else None
        if l is not None:
            for r in dataflow.roots(b, l):
                if r[0] == "call":
                    cc = b.blocks[r[1]][2][1]
                    nn = name(cc)
                    if nn in ("regex::regex::string::Regex::new", "regex::Regex::new") and cc["a"] and cc["a"][0][0] == "k":
                        return "Regex::new on a literal pattern"
                if r[0] == "agg":
                    st = b.blocks[r[1]][1][r[2]]
                    if st[2][3] in ("Some", "Ok"):
                        return "value constructed as %s in this function" % st[2][3]
    return None


def audit(chk, F, rule, prop, entries, in_scope, table=None, cg=None, skip_kinds=()):
    """enumerate and discharge; returns (n_sites, n_recognised, n_audited)"""
    table = table if table is not None else load_table()
    cg = cg or callgraph.CallGraph(F)
    reach = [x for x in cg.reachable(entries) if x in F.bodies and in_scope(F.bodies[x])]
    n = rec = aud = 0
    used = set()
    for bid in sorted(reach):
        b = F.bodies[bid]
        ordinal = {}
        for bb, kind, line, detail in panics.sites(b):
            if kind in skip_kinds:
                continue
            k = (kind, detail.split("::")[-1])
            ordinal[k] = ordinal.get(k, 0) + 1
            key = "%s|%s|%s:%s#%d" % (prop, bid, kind, detail.split("::")[-1], ordinal[k])
            n += 1
            why = recognise(F, b, bb, kind)
            if why:
                rec += 1
                chk.ok(rule, key, {"rule": rule, "site": b.loc(line), "kind": kind, "verdict": "guard recognised", "reason": why})
                continue
            if key in table:
                aud += 1
                used.add(key)
                chk.ok(rule, key, {"rule": rule, "site": b.loc(line), "kind": kind, "verdict": "audited", "reason": table[key]})
                continue
            chain = cg.path(entries, bid) or [bid]
            chk.violation(rule, key,
                          "undischarged panic-capable site (%s: %s) reachable from %s" % (kind, detail, chain[0].split("::")[-1]),
                          b.loc(line), witness={"call_chain": chain[:12], "kind": kind, "callee": detail})
    chk.unit("functions in panic-surface scope", len(reach))
    chk.unit("panic-capable sites", n)
    chk.unit("sites discharged by recognised guards", rec)
    chk.unit("sites discharged by the audited table", aud)
    return n, rec, aud
