"""Thorough tier: sensitivity replay.  Every seeded change under /verif/seeded that is recorded as caught by this
property's check (meta.json: detected_by names the property) is applied to a scratch copy of /repo's current working tree
and the quick check is run against that copy: it must exit 1 with a VIOLATION line.  A patch that no longer applies to the
current tree is skipped (reported, not counted).  Scratch copies are plain copies (rsync + git init) in the system temp directory and are
removed before returning."""
import json
import os
import re
import shutil
import subprocess
import tempfile

VERIF = os.path.dirname(os.path.dirname(os.path.abspath(__file__)))
REPO = "/repo"


def mutants_for(prop):
    out = []
    root = os.path.join(VERIF, "seeded")
    for name in sorted(os.listdir(root)) if os.path.isdir(root) else []:
        mp = os.path.join(root, name, "meta.json")
        if not os.path.exists(mp):
            continue
        try:
            meta = json.load(open(mp))
        except Exception:
            continue
        det = meta.get("detected_by") or ""
        if prop in re.findall(r"C\d\d", det):
            out.append((name, os.path.join(root, name, "patch.diff"), det))
    return out


def _run(cmd, **kw):
    return subprocess.run(cmd, stdout=subprocess.PIPE, stderr=subprocess.STDOUT, text=True, **kw)


def replay(prop):
    """returns list of dicts {mutant, outcome: caught|missed|not-applicable|error, detail}"""
    results = []
    muts = mutants_for(prop)
    if not muts:
        return results
    # one fixed scratch path per property: cargo's artefacts for path crates are keyed by path, a fresh random path per run
    # would make the shared target directory grow without bound
    base = os.path.join(tempfile.gettempdir(), "verif-selftest", prop)
    shutil.rmtree(base, ignore_errors=True)
    os.makedirs(base, exist_ok=True)
    wt = os.path.join(base, "wt")
    try:
        # a private copy of /repo's current working tree (tracked + untracked sources, no build output, no .git):
        # /repo itself is never touched
        os.makedirs(wt)
        r = _run(["rsync", "-a", "--exclude", "/target", "--exclude", "/.git", "--exclude", "target/", REPO + "/", wt + "/"])
        if r.returncode != 0:
            return [{"mutant": m[0], "outcome": "error", "detail": "cannot copy the tree: " + r.stdout[-200:]} for m in muts]
        g = ["git", "-C", wt, "-c", "user.name=verif", "-c", "user.email=verif@localhost", "-c", "commit.gpgsign=false"]
        ok = _run(g + ["init", "-q"]).returncode == 0 and _run(g + ["add", "-A"]).returncode == 0 and \
            _run(g + ["commit", "-q", "-m", "base"]).returncode == 0
        if not ok:
            return [{"mutant": m[0], "outcome": "error", "detail": "cannot initialise the scratch repository"} for m in muts]
        base_state = b""
        for name, patch, det in muts:
            subprocess.run(["git", "-C", wt, "checkout", "-q", "--", "."])
            subprocess.run(["git", "-C", wt, "clean", "-fdq"])
            if base_state.strip():
                subprocess.run(["git", "-C", wt, "apply"], input=base_state)
            a = _run(["git", "-C", wt, "apply", patch])
            if a.returncode != 0:
                results.append({"mutant": name, "outcome": "not-applicable", "detail": "patch does not apply to the current tree"})
                continue
            env = dict(os.environ, VERIF_REPO=wt, VERIF_NO_SELFTEST="1", VERIF_TIER="quick")
            c = _run([os.path.join(VERIF, "vcheck"), prop, "--quick"], env=env, cwd=VERIF)
            viol = [l for l in c.stdout.splitlines() if l.startswith("VIOLATION property=%s" % prop)]
            broken = "rule could not be evaluated" in c.stdout
            if c.returncode == 1 and viol and not broken:
                keys = [l.strip().split(": ")[0][-90:] for l in c.stdout.splitlines() if l.startswith("  ") and "|" in l][:3]
                results.append({"mutant": name, "outcome": "caught", "detail": "; ".join(keys), "recorded": det})
            elif c.returncode == 1 and broken:
                results.append({"mutant": name, "outcome": "caught", "detail": "fail-closed (an anchor of the rule is gone in the changed tree)", "recorded": det})
            else:
                results.append({"mutant": name, "outcome": "missed", "detail": "exit %d, %d VIOLATION lines" % (c.returncode, len(viol)), "recorded": det})
    finally:
        shutil.rmtree(base, ignore_errors=True)
    return results
