"""Path analysis of grammar functions against the marker protocol.

For every grammar function f a set of outcomes (variant, d_open, swallowed_leak) is computed by enumerating feasible
paths (Option/Result variant knowledge prunes `?` edges); callees contribute their own outcome sets (fixpoint over the
call graph, a few rounds).  variant: 0 = Ok / non-Result return, 1 = Err.
"""
import paths
import markers

MAX_PATHS = 40000


def name(c):
    return c.get("r") or c.get("f") or ""


def ret_kind(b):
    s = b.local_ty_str(0)
    if s.startswith("core::result::Result<"):
        return "result"
    return "plain"


def returns_open_marker(b):
    s = b.local_ty_str(0)
    return "marker::Marker" in s and "CompleteMarker" not in s


class GrammarAnalysis:
    def __init__(self, F):
        self.F = F
        self.M = markers.MarkerSummaries(F)
        self.fns = {b.id: b for b in markers.grammar_functions(F)}
        # repair sites: read mark level, call a grammar function, push node ends
        self.repair = set()
        for b in self.fns.values():
            names = [name(c) for _, c in b.calls()]
            if any(n.endswith("::get_mark_level") for n in names) and any(n.endswith("::push_node_end") for n in names):
                self.repair.add(b.id)
        self.summ = {fid: None for fid in self.fns}   # fid -> set of (variant, d_open)
        self.truncated = set()
        self.swallow = {}   # fid -> list of (callee, line)
        self.neg = {}       # fid -> witness of d_open < 0 relative to entry
        self._solve()

    def default_outcomes(self, b):
        base = 1 if returns_open_marker(b) else 0
        if ret_kind(b) == "result":
            return {(0, base), (1, 0)}
        return {(0, base)}

    def callee_outcomes(self, callee, c):
        """outcome set of a call: API effect, grammar summary, trait fan-out, or None (no effect)"""
        api = self.M.api_effect(callee)
        if api is not None:
            return {(0, o) for (o, l) in api}
        if callee in self.fns:
            s = self.summ.get(callee)
            return s if s is not None else set()   # least fixpoint: an unanalysed callee has no outcome yet
        if not c.get("r"):
            outs = set()
            known_impl = False
            for im in self.F.trait_impls().get(c.get("f"), ()):  # e.g. MarkerEventContainer methods on generic P
                if im in self.fns:
                    s = self.summ.get(im)
                    outs |= s if s is not None else set()
                    known_impl = True
            if known_impl:
                return outs
        return None

    def _solve(self):
        for rnd in range(40):
            changed = False
            for fid, b in self.fns.items():
                if fid in self.repair:
                    # a repair site closes exactly the nodes its callee leaked on Err (it pushes current_level - level
                    # NodeEnds); this is exact iff every primitive keeps d_level == d_open, which R01-prim checks
                    new = {(0, 0)}
                else:
                    new = self._analyse(b)
                    # clamp: "leaks >= 1" / "over-closes >= 1" is all a caller needs; this keeps recursive cycles from
                    # amplifying one genuine leak into an unbounded family of outcomes
                    base = 1 if returns_open_marker(b) else 0
                    new = {(v, max(base - 1, min(base + 1, o)) if v == 0 else max(-1, min(1, o))) for (v, o) in new}
                if new != self.summ[fid]:
                    self.summ[fid] = new
                    changed = True
            if not changed:
                break
        self.rounds = rnd + 1

    def _analyse(self, b):
        """explore abstract states (block, d_open, pending leaks, small variant knowledge) with merging of identical
        states.  Knowledge is kept only for Result values produced by forking calls, their `?` branch results, copies,
        discriminant reads and is_ok/is_err tests of those -- everything else is ignored (all edges taken)."""
        succ = b.succ_map()
        rets = set(b.returns())
        outs = set()
        is_result = ret_kind(b) == "result"
        self.swallow[b.id] = []
        self.neg.pop(b.id, None)
        seen = set()
        # state: (bb, d_open, leaks, known{local:variant}, disc{local:variant}, boolk{local:bool}, refs{local:local})
        stack = [(0, 0, frozenset(), (), (), (), ())]
        nstates = 0
        while stack:
            state = stack.pop()
            if state in seen:
                continue
            seen.add(state)
            nstates += 1
            if nstates > MAX_PATHS:
                self.truncated.add(b.id)
                break
            bb, d_open, leaks, known_t, disc_t, bool_t, refs_t = state
            known = dict(known_t)
            disc = dict(disc_t)
            boolk = dict(bool_t)
            refs = dict(refs_t)
            for st in b.blocks[bb][1]:
                if st[0] != "a":
                    continue
                dst, rv = st[1], st[2]
                if len(dst) != 1:
                    known.pop(dst[0], None)
                    continue
                l = dst[0]
                known.pop(l, None)
                disc.pop(l, None)
                boolk.pop(l, None)
                refs.pop(l, None)
                k = rv[0]
                if k == "agg" and rv[3] in ("Ok", "Err"):
                    known[l] = 0 if rv[3] == "Ok" else 1
                elif k == "use" and rv[1][0] in ("c", "m") and len(rv[1][1]) == 1:
                    src = rv[1][1][0]
                    if src in known:
                        known[l] = known[src]
                    if src in boolk:
                        boolk[l] = boolk[src]
                    if src in disc:
                        disc[l] = disc[src]
                    if src in refs:
                        refs[l] = refs[src]
                elif k == "ref" and len(rv[2]) == 1 and rv[2][0] in known:
                    refs[l] = rv[2][0]
                elif k == "disc":
                    pl = rv[1]
                    if len(pl) == 1 and pl[0] in known:
                        disc[l] = known[pl[0]]
                    elif len(pl) == 2 and pl[1] == "*" and pl[0] in refs and refs[pl[0]] in known:
                        disc[l] = known[refs[pl[0]]]
                elif k == "un" and rv[1] == "Not" and rv[2][0] in ("c", "m") and len(rv[2][1]) == 1 and rv[2][1][0] in boolk:
                    boolk[l] = not boolk[rv[2][1][0]]
            do, dl, call = markers.block_primitive_effect(b, bb)
            d_open += do
            if bb in rets:
                v = known.get(0, 0) if is_result else 0
                outs.add((v, d_open))
                if leaks and v == 0 and b.id not in self.repair:
                    for lk in leaks:
                        if lk not in self.swallow[b.id]:
                            self.swallow[b.id].append(lk)
                continue
            t = b.blocks[bb][2]
            nexts = succ[bb]
            forks = [(0, None, None)]
            if t[0] == "sw" and t[1][0] in ("c", "m") and len(t[1][1]) == 1:
                l = t[1][1][0]
                val = None
                if l in disc:
                    val = disc[l]
                elif l in boolk:
                    val = 1 if boolk[l] else 0
                if val is not None:
                    tgt = None
                    for v_, tb in t[2]:
                        if v_ == val:
                            tgt = tb
                    nexts = [tgt if tgt is not None else t[3]]
            elif call is not None:
                callee = name(call)
                co = self.callee_outcomes(callee, call)
                d = call["d"][0] if len(call["d"]) == 1 else None
                if d is not None:
                    known.pop(d, None)
                    disc.pop(d, None)
                    boolk.pop(d, None)
                    refs.pop(d, None)
                if co is not None:
                    forks = []
                    dres = d is not None and b.local_ty_str(d).startswith("core::result::Result<")
                    for (v, o) in sorted(co):
                        leak = (callee, call["l"]) if (v == 1 and o > 0) else None
                        forks.append((o, v if dres else None, leak))
                elif callee.endswith("Try>::branch") and call["a"] and call["a"][0][0] in ("c", "m") and len(call["a"][0][1]) == 1:
                    kv = known.get(call["a"][0][1][0])
                    forks = [(0, kv, None)]
                elif "FromResidual" in callee:
                    forks = [(0, 1, None)]
                elif callee in ("core::result::Result::<T, E>::is_err", "core::result::Result::<T, E>::is_ok") and call["a"]:
                    a = call["a"][0]
                    src = a[1][0] if a[0] in ("c", "m") and len(a[1]) == 1 else None
                    tgt = refs.get(src, src)
                    if tgt in known and d is not None:
                        is_err = callee.endswith("is_err")
                        boolk[d] = (known[tgt] == 1) == is_err
                # moving a known value into any other call forgets it
                for a in call["a"]:
                    if a[0] == "m" and len(a[1]) == 1 and not callee.endswith("Try>::branch"):
                        known.pop(a[1][0], None)
            for (delta, kv, leak) in forks:
                nd = d_open + delta
                if nd < -4 or nd > 12:
                    self.truncated.add(b.id)
                    continue
                if nd < 0 and b.id not in self.neg and b.id not in self.repair:
                    self.neg[b.id] = (name(call) if call else "", call["l"] if call else 0)
                k2 = dict(known)
                if call is not None and kv is not None and len(call["d"]) == 1:
                    k2[call["d"][0]] = kv
                for s2 in nexts:
                    stack.append((s2, nd, leaks | ({leak} if leak else frozenset()), tuple(sorted(k2.items())),
                                  tuple(sorted(disc.items())), tuple(sorted(boolk.items())), tuple(sorted(refs.items()))))
        return outs
