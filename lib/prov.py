"""Backward value-provenance ("where can this value come from") over MIR-lite, interprocedural through
workspace callers (parameters), closure captures (upvars) and pass-through callees.

labels(body, local) -> set of labels.  A rule supplies:
  source(body, root) -> set|None      label a root directly (a call site, a place, an argument); None = keep going
  derive(callee, arg_label_sets, call) -> set|None   override the default for a call (default: union of all args)
The default for an unknown callee is the union of the labels of all its arguments (derived-from), which is
conservative for "may come from".
"""
import dataflow


class Prov:
    def __init__(self, F, source=None, derive=None, max_depth=12, caller_filter=None, follow_returns=False):
        self.F = F
        self.source = source or (lambda b, r: None)
        self.derive = derive or (lambda callee, args, c: None)
        self.memo = {}
        self.stack = set()
        self.max_depth = max_depth
        self.caller_filter = caller_filter
        self.follow_returns = follow_returns
        self._callers = None
        self._closure_sites = None

    # ---- indices
    def callers(self):
        if self._callers is None and getattr(self.F, '_prov_callers', None) is not None:
            self._callers = self.F._prov_callers
        if self._callers is None:
            idx = {}
            for b in self.F.bodies.values():
                for bb, c in b.calls():
                    cal = c.get("r") or c.get("f")
                    if cal:
                        idx.setdefault(cal, []).append((b, bb, c))
                    # unresolved trait method: also register under every workspace impl
                    if not c.get("r") and c.get("f") in self.F.trait_impls():
                        for im in self.F.trait_impls()[c["f"]]:
                            idx.setdefault(im, []).append((b, bb, c))
            self._callers = idx
            self.F._prov_callers = idx
        return self._callers

    def closure_sites(self):
        """closure body id -> (parent body, [operands])"""
        if self._closure_sites is None and getattr(self.F, '_prov_closures', None) is not None:
            self._closure_sites = self.F._prov_closures
        if self._closure_sites is None:
            idx = {}
            for b in self.F.bodies.values():
                for blk in b.blocks:
                    for st in blk[1]:
                        if st[0] == "a" and st[2][0] == "agg" and st[2][1] in ("closure", "coroutine", "coroutine_closure"):
                            idx.setdefault(st[2][2], []).append((b, st[2][4]))
            self._closure_sites = idx
            self.F._prov_closures = idx
        return self._closure_sites

    # ---- api
    def operand_labels(self, b, op, depth=0):
        if op[0] in ("c", "m"):
            return self.place_labels(b, op[1], depth)
        if op[1] == "fn":
            return {("FN", op[2])}
        return {("CONST", str(op[2]))}

    def place_labels(self, b, place, depth=0):
        if len(place) == 1:
            return self.labels(b, place[0], depth)
        s = self.source(b, ("place", place[0], tuple(dataflow._freeze(e) for e in place[1:])))
        if s is not None:
            return set(s)
        up = self._upvar(b, place, depth)
        if up is not None:
            return up
        # field-sensitive for locals built by an aggregate in this body: `(a, b).0` is `a`, not `a` and `b`
        first = place[1]
        if isinstance(first, (list, tuple)) and first[0] == "f":
            ds = dataflow.def_sites(b).get(place[0], [])
            if ds and all(d[0] == "stmt" and d[3][0] == "agg" and d[3][1] in ("tuple", "adt") for d in ds):
                out = set()
                for d in ds:
                    ops = d[3][4]
                    if first[1] < len(ops):
                        out |= self.operand_labels(b, ops[first[1]], depth + 1)
                return out
        return self.labels(b, place[0], depth)

    def _upvar(self, b, place, depth):
        """(*_1).i / _1.i in a closure body = i-th captured operand at the creation site"""
        if b.kind not in ("closure", "coroutine") or place[0] != 1:
            return None
        fld = None
        for e in place[1:]:
            if isinstance(e, (list, tuple)) and e[0] == "f":
                fld = e[1]
                break
            if e == "*":
                continue
            break
        if fld is None:
            return None
        out = set()
        for pb, ops in self.closure_sites().get(b.id, []):
            if fld < len(ops):
                out |= self.operand_labels(pb, ops[fld], depth + 1)
        return out

    def labels(self, b, local, depth=0):
        key = (b.id, local)
        if key in self.memo:
            return self.memo[key]
        if key in self.stack:
            return set()
        if depth > self.max_depth:
            return {("UNKNOWN", "depth-cut")}     # never silently "no source": the caller must treat it as not proven
        self.stack.add(key)
        out = set()
        for r in dataflow.roots(b, local):
            s = self.source(b, r)
            if s is not None:
                out |= set(s)
                continue
            k = r[0]
            if k == "arg":
                out |= self._arg_labels(b, r[1], depth)
            elif k == "call":
                c = b.blocks[r[1]][2][1]
                callee = c.get("r") or c.get("f") or ""
                arg_sets = [self.operand_labels(b, a, depth + 1) for a in c["a"]]
                d = self.derive(callee, arg_sets, c)
                if d is not None:
                    out |= set(d)
                elif self.follow_returns and callee in self.F.bodies:
                    out |= self.labels(self.F.bodies[callee], 0, depth + 1)
                else:
                    for a in arg_sets:
                        out |= a
                    if not c["a"]:
                        out.add(("CALL", callee))
            elif k == "agg":
                st = b.blocks[r[1]][1][r[2]]
                for op in st[2][4]:
                    out |= self.operand_labels(b, op, depth + 1)
            elif k == "place":
                pl = [r[1]] + [list(e) if isinstance(e, tuple) else e for e in r[2]]
                out |= self.place_labels(b, pl, depth + 1)
            elif k == "const":
                out.add(("CONST", r[1]))
            elif k == "other":
                st = b.blocks[r[1]][1][r[2]]
                rv = st[2]
                # binop / unop / discriminant / len: derived from operands
                for x in rv[1:]:
                    if isinstance(x, list) and x and x[0] in ("c", "m", "k"):
                        out |= self.operand_labels(b, x, depth + 1)
                    elif isinstance(x, list) and x and isinstance(x[0], int):
                        out |= self.place_labels(b, x, depth + 1)
        self.stack.discard(key)
        self.memo[key] = out
        return out

    def _arg_labels(self, b, n, depth):
        out = set()
        if b.kind in ("closure", "coroutine"):
            if n == 1:
                return out  # the environment itself
            # closure call arguments come from whoever invokes the closure: unknown here
            out.add(("CLOSURE_ARG", "%s#%d" % (b.id, n)))
            return out
        sites = self.callers().get(b.id, [])
        if not sites:
            out.add(("ENTRY_ARG", "%s#%d" % (b.id, n)))
        for cb, bb, c in sites:
            if self.caller_filter is not None and cb.id not in self.caller_filter:
                continue
            if n - 1 < len(c["a"]):
                out |= self.operand_labels(cb, c["a"][n - 1], depth + 1)
        return out
