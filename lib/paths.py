"""Bounded path enumeration over MIR-lite CFGs with a small feasibility filter.

The filter tracks which enum variant a place is known to hold along the path, learnt from
  * `switchInt(discriminant(place))` edges,
  * branches on the bool result of Option::is_some/is_none, Result::is_ok/is_err applied to `&place`,
and rejects a path that requires two different variants of the same (unmodified) place.  This removes the
classic infeasible paths of `if x.is_none() {..} else if let Some(v) = x {..}` chains.
"""

VARIANT_TESTS = {
    "core::option::Option::<T>::is_none": 0, "core::option::Option::<T>::is_some": 1,
    "core::result::Result::<T, E>::is_ok": 0, "core::result::Result::<T, E>::is_err": 1,
}


def _pkey(place):
    return repr(place)


class PathState:
    __slots__ = ("known", "notin", "disc", "refof", "boolof", "nvar")

    def __init__(self):
        self.known = {}   # place key -> variant index
        self.notin = {}   # place key -> set of excluded variant indices
        self.disc = {}    # local -> place key (holds discriminant of that place)
        self.refof = {}   # local -> place key (is a reference to that place)
        self.boolof = {}  # local -> (place key, variant) meaning: local == (place is variant)
        self.nvar = {}    # place key -> number of variants when known (Option/Result = 2)

    def copy(self):
        s = PathState()
        s.known = dict(self.known)
        s.notin = {k: set(v) for k, v in self.notin.items()}
        s.disc = dict(self.disc)
        s.refof = dict(self.refof)
        s.boolof = dict(self.boolof)
        s.nvar = self.nvar
        return s

    def kill_local(self, l):
        pref = "[%d" % l
        for d in (self.known, self.notin):
            for k in [k for k in d if k.startswith(pref + "]") or k.startswith(pref + ",")]:
                del d[k]

    def assume(self, key, variant, positive=True, nvariants=None):
        """returns False when contradictory"""
        nvariants = nvariants or self.nvar.get(key)
        if positive:
            if key in self.known and self.known[key] != variant:
                return False
            if variant in self.notin.get(key, ()):
                return False
            self.known[key] = variant
        else:
            if self.known.get(key) == variant:
                return False
            self.notin.setdefault(key, set()).add(variant)
            if nvariants and len(self.notin[key]) >= nvariants:
                return False
        return True


TWO_VARIANT = ("core::option::Option", "core::result::Result", "core::task::poll::Poll", "core::ops::control_flow::ControlFlow")


def _note_nvar(b, st, place, key):
    if len(place) == 1:
        t = b.local_ty(place[0])
        if t[1] == 0 and t[2] == "adt" and t[3] in TWO_VARIANT:
            st.nvar[key] = 2
    elif len(place) == 2 and place[1] == "*":
        t = b.local_ty(place[0])
        if t[2] == "adt" and t[3] in TWO_VARIANT:
            st.nvar[key] = 2


def step_block(b, bb, st):
    """apply the statements of block bb to the state"""
    for s in b.blocks[bb][1]:
        if s[0] != "a":
            continue
        dst, rv = s[1], s[2]
        if len(dst) == 1:
            l = dst[0]
            st.disc.pop(l, None)
            st.refof.pop(l, None)
            st.boolof.pop(l, None)
            st.kill_local(l)
            if rv[0] == "disc":
                pl = rv[1]
                # discriminant through a reference local
                if len(pl) == 2 and pl[1] == "*" and pl[0] in st.refof:
                    st.disc[l] = st.refof[pl[0]]
                else:
                    st.disc[l] = _pkey(pl)
                    _note_nvar(b, st, pl, st.disc[l])
            elif rv[0] == "ref":
                pl = rv[2]
                if len(pl) == 2 and pl[1] == "*" and pl[0] in st.refof:
                    st.refof[l] = st.refof[pl[0]]
                else:
                    st.refof[l] = _pkey(pl)
                    _note_nvar(b, st, pl, st.refof[l])
                if rv[1] == "m":
                    st.kill_local(pl[0])
            elif rv[0] == "use" and rv[1][0] in ("c", "m") and len(rv[1][1]) == 1:
                src = rv[1][1][0]
                if src in st.refof:
                    st.refof[l] = st.refof[src]
                if src in st.boolof:
                    st.boolof[l] = st.boolof[src]
                if src in st.disc:
                    st.disc[l] = st.disc[src]
                if rv[1][0] == "m":
                    st.kill_local(src)
            elif rv[0] == "un" and rv[1] == "Not" and rv[2][0] in ("c", "m") and len(rv[2][1]) == 1 and rv[2][1][0] in st.boolof:
                k, v, pos = st.boolof[rv[2][1][0]]
                st.boolof[l] = (k, v, not pos)
        else:
            st.kill_local(dst[0])


def take_edge(b, bb, succ_bb, st):
    """apply the terminator of bb for the edge to succ_bb; returns False if the edge is infeasible"""
    t = b.blocks[bb][2]
    k = t[0]
    if k == "sw":
        op = t[1]
        if op[0] in ("c", "m") and len(op[1]) == 1:
            l = op[1][0]
            vals = [v for v, tb in t[2] if tb == succ_bb]
            is_other = (t[3] == succ_bb)
            if l in st.disc:
                key = st.disc[l]
                if vals and not is_other:
                    if len(vals) == 1:
                        return st.assume(key, vals[0], True)
                elif is_other and not vals:
                    for v, _ in t[2]:
                        if not st.assume(key, v, False):
                            return False
            elif l in st.boolof:
                key, variant, pos = st.boolof[l]
                if vals == [0] and not is_other:
                    truth = False
                elif is_other and not vals:
                    truth = True
                else:
                    return True
                return st.assume(key, variant, truth == pos)
    elif k == "call":
        c = t[1]
        callee = c.get("r") or c.get("f") or ""
        d = c["d"]
        if len(d) == 1:
            st.disc.pop(d[0], None)
            st.refof.pop(d[0], None)
            st.boolof.pop(d[0], None)
            st.kill_local(d[0])
        if callee in VARIANT_TESTS and c["a"] and c["a"][0][0] in ("c", "m") and len(c["a"][0][1]) == 1:
            a = c["a"][0][1][0]
            if a in st.refof and len(d) == 1:
                st.boolof[d[0]] = (st.refof[a], VARIANT_TESTS[callee], True)
        else:
            # a call that receives a &mut to a tracked place, or the place by move, invalidates knowledge
            for a in c["a"]:
                if a[0] == "m" and len(a[1]) == 1:
                    st.kill_local(a[1][0])
    elif k == "drop":
        st.kill_local(t[1][0])
    return True


def enumerate_paths(b, start, is_end, max_visits=2, max_paths=50000, on_path=None, stop_at=None):
    """DFS over feasible paths from `start` to blocks with is_end(bb) True.
    Calls on_path(path) for each complete path; returns (count, truncated)."""
    succ = b.succ_map()
    count = 0
    truncated = False
    stack = [(start, [start], {start: 1}, PathState())]
    while stack:
        bb, path, visits, st = stack.pop()
        st = st.copy()
        step_block(b, bb, st)
        if is_end(bb):
            count += 1
            if on_path:
                on_path(path)
            if count >= max_paths:
                truncated = True
                break
            continue
        if stop_at and stop_at(bb) and bb != start:
            continue
        for s in succ[bb]:
            if visits.get(s, 0) >= max_visits:
                continue
            st2 = st.copy()
            if not take_edge(b, bb, s, st2):
                continue
            v2 = dict(visits)
            v2[s] = v2.get(s, 0) + 1
            stack.append((s, path + [s], v2, st2))
    return count, truncated
