"""Whole-workspace call graph from resolved callees (+ closure links, fn-item operands, trait-method fan-out)."""


def _walk_consts(x, out):
    if isinstance(x, list):
        if len(x) >= 3 and x[0] == "k" and x[1] == "fn":
            out.add(x[4] if len(x) > 4 and x[4] else x[2])
        elif len(x) >= 3 and x[0] == "agg" and x[1] in ("closure", "coroutine", "coroutine_closure"):
            out.add(x[2])
            for y in x[4]:
                _walk_consts(y, out)
        else:
            for y in x:
                _walk_consts(y, out)
    elif isinstance(x, dict):
        for k, y in x.items():
            if k in ("a", "fo"):
                _walk_consts(y, out)


class CallGraph:
    def __init__(self, F):
        self.F = F
        self._edges = {}
        self._rev = None

    def callees(self, bid):
        e = self._edges.get(bid)
        if e is not None:
            return e
        b = self.F.bodies.get(bid)
        out = set()
        if b is not None:
            ti = self.F.trait_impls()
            for blk in b.blocks:
                if blk[0]:
                    continue
                for st in blk[1]:
                    _walk_consts(st, out)
                t = blk[2]
                if t[0] == "call":
                    c = t[1]
                    r = c.get("r")
                    f = c.get("f")
                    if r:
                        out.add(r)
                    if f and (not r or r == f):
                        # unresolved trait method, or a virtual call through `dyn Trait` (the driver then reports the
                        # trait item itself as the resolution): every workspace impl may run
                        out.add(f)
                        for im in ti.get(f, ()):
                            out.add(im)
                    _walk_consts(c, out)
                elif t[0] == "tail" and t[1]:
                    out.add(t[1])
        self._edges[bid] = out
        return out

    def reachable(self, roots, stop=None):
        seen = set()
        st = [r for r in roots]
        while st:
            n = st.pop()
            if n in seen:
                continue
            seen.add(n)
            if stop and stop(n):
                continue
            if n in self.F.bodies:
                st.extend(self.callees(n) - seen)
        return seen

    def callers(self):
        if self._rev is None:
            rev = {}
            for bid in self.F.bodies:
                for c in self.callees(bid):
                    rev.setdefault(c, set()).add(bid)
            self._rev = rev
        return self._rev

    def path(self, roots, target):
        """a shortest call chain from some root to target (list of ids) or None"""
        from collections import deque
        prev = {r: None for r in roots}
        dq = deque(roots)
        while dq:
            n = dq.popleft()
            if n == target:
                p = []
                while n is not None:
                    p.append(n)
                    n = prev[n]
                return p[::-1]
            if n in self.F.bodies:
                for c in self.callees(n):
                    if c not in prev:
                        prev[c] = n
                        dq.append(c)
        return None
