// Minimal JSON value + writer (no external crates are available to a rustc_private driver here).
use std::fmt::Write;

#[derive(Clone, Debug)]
pub enum J {
    Null,
    Bool(bool),
    Int(i128),
    Str(String),
    Arr(Vec<J>),
    Obj(Vec<(&'static str, J)>),
}

impl J {
    pub fn s<S: Into<String>>(s: S) -> J {
        J::Str(s.into())
    }
    pub fn opt_s(s: Option<String>) -> J {
        match s {
            Some(s) => J::Str(s),
            None => J::Null,
        }
    }
    pub fn write(&self, out: &mut String) {
        match self {
            J::Null => out.push_str("null"),
            J::Bool(b) => out.push_str(if *b { "true" } else { "false" }),
            J::Int(i) => {
                // keep numbers that do not fit an i64 as strings so that any JSON reader agrees
                if *i > i64::MAX as i128 || *i < i64::MIN as i128 {
                    let _ = write!(out, "\"{}\"", i);
                } else {
                    let _ = write!(out, "{}", i);
                }
            }
            J::Str(s) => write_str(s, out),
            J::Arr(v) => {
                out.push('[');
                for (i, x) in v.iter().enumerate() {
                    if i > 0 {
                        out.push(',');
                    }
                    x.write(out);
                }
                out.push(']');
            }
            J::Obj(v) => {
                out.push('{');
                for (i, (k, x)) in v.iter().enumerate() {
                    if i > 0 {
                        out.push(',');
                    }
                    write_str(k, out);
                    out.push(':');
                    x.write(out);
                }
                out.push('}');
            }
        }
    }
}

fn write_str(s: &str, out: &mut String) {
    out.push('"');
    for c in s.chars() {
        match c {
            '"' => out.push_str("\\\""),
            '\\' => out.push_str("\\\\"),
            '\n' => out.push_str("\\n"),
            '\r' => out.push_str("\\r"),
            '\t' => out.push_str("\\t"),
            c if (c as u32) < 0x20 => {
                let _ = write!(out, "\\u{:04x}", c as u32);
            }
            c => out.push(c),
        }
    }
    out.push('"');
}
