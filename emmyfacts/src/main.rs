// emmyfacts: rustc_private fact extractor for the /verif static checks.
// Runs as RUSTC_WORKSPACE_WRAPPER under `cargo +nightly check`; for every workspace crate it writes one
// JSON-lines file with MIR-lite for every body (taken at mir_promoted through a mir_borrowck override,
// i.e. before drop elaboration and before the coroutine transform) and item facts.
#![feature(rustc_private)]
#![allow(clippy::all)]
extern crate rustc_abi;
extern crate rustc_driver;
extern crate rustc_hir;
extern crate rustc_infer;
extern crate rustc_interface;
extern crate rustc_middle;
extern crate rustc_session;
extern crate rustc_span;
extern crate rustc_trait_selection;

mod json;
use json::J;

use rustc_driver::{Callbacks, Compilation};
use rustc_hir::def::DefKind;
use rustc_hir::def_id::{DefId, LocalDefId, LOCAL_CRATE};
use rustc_infer::infer::TyCtxtInferExt;
use rustc_interface::interface::{Compiler, Config};
use rustc_middle::mir::{
    AggregateKind, BasicBlock, Body, BorrowKind, Const, ConstValue, Operand, Place, ProjectionElem,
    Rvalue, StatementKind, TerminatorKind, UnwindAction,
};
use rustc_middle::ty::print::{with_no_trimmed_paths, with_no_visible_paths, with_resolve_crate_name};
use rustc_middle::ty::{self, GenericArgKind, Instance, Ty, TyCtxt, TypingEnv, TypingMode};
use rustc_middle::util::Providers;
use rustc_span::Span;
use rustc_trait_selection::infer::InferCtxtExt;
use std::cell::RefCell;
use std::collections::HashMap;

struct Out {
    lines: Vec<String>,
    types: Vec<J>,
    type_ix: HashMap<String, usize>,
    nbodies: usize,
}

thread_local! {
    static ORIG: RefCell<Option<for<'tcx> fn(TyCtxt<'tcx>, LocalDefId) -> rustc_middle::queries::mir_borrowck::ProvidedValue<'tcx>>> = RefCell::new(None);
    static OUT: RefCell<Out> = RefCell::new(Out { lines: Vec::new(), types: Vec::new(), type_ix: HashMap::new(), nbodies: 0 });
}

fn emit(j: J) {
    let mut s = String::new();
    j.write(&mut s);
    OUT.with(|o| o.borrow_mut().lines.push(s));
}

fn path_of(tcx: TyCtxt<'_>, did: DefId) -> String {
    let s = with_no_visible_paths!(with_resolve_crate_name!(with_no_trimmed_paths!(tcx.def_path_str(did))));
    strip_lifetime_segments(&s)
}

// `Ctx::<'a>::method` -> `Ctx::method` (segments that only list lifetimes carry no information for the rules)
fn strip_lifetime_segments(s: &str) -> String {
    let b = s.as_bytes();
    let mut out = String::with_capacity(s.len());
    let mut i = 0;
    while i < b.len() {
        if b[i..].starts_with(b"::<'") {
            let mut j = i + 3;
            let mut only_lifetimes = true;
            while j < b.len() && b[j] != b'>' {
                let c = b[j];
                if !(c == b'\'' || c == b'_' || c == b',' || c == b' ' || c.is_ascii_alphanumeric()) {
                    only_lifetimes = false;
                    break;
                }
                j += 1;
            }
            // every comma separated item must start with a quote
            if only_lifetimes && j < b.len() {
                let inner = &s[i + 3..j];
                if inner.split(',').all(|p| p.trim_start().starts_with('\'')) {
                    i = j + 1;
                    continue;
                }
            }
        }
        let ch = s[i..].chars().next().unwrap();
        out.push(ch);
        i += ch.len_utf8();
    }
    out
}

fn ty_str(ty: Ty<'_>) -> String {
    with_no_visible_paths!(with_resolve_crate_name!(with_no_trimmed_paths!(ty.to_string())))
}

// Intern a type; the table entry is [string, nref, kind, path|null, [type-arg indices]]
fn ty_ix<'tcx>(tcx: TyCtxt<'tcx>, ty: Ty<'tcx>) -> usize {
    let s = ty_str(ty);
    // closures/coroutines created at the same (macro) span print identically: make the interning key unique
    // by the def paths of every closure-like type mentioned
    let mut key = s.clone();
    for arg in ty.walk() {
        if let Some(t) = arg.as_type() {
            match t.kind() {
                ty::Closure(did, _) | ty::Coroutine(did, _) | ty::CoroutineClosure(did, _) => {
                    key.push('#');
                    key.push_str(&path_of(tcx, *did));
                }
                _ => {}
            }
        }
    }
    if let Some(i) = OUT.with(|o| o.borrow().type_ix.get(&key).copied()) {
        return i;
    }
    // reserve the slot first (recursive types through generic args)
    let ix = OUT.with(|o| {
        let mut o = o.borrow_mut();
        let ix = o.types.len();
        o.types.push(J::Null);
        o.type_ix.insert(key.clone(), ix);
        ix
    });
    let mut nref = 0;
    let mut t = ty;
    loop {
        match t.kind() {
            ty::Ref(_, inner, _) => {
                nref += 1;
                t = *inner;
            }
            ty::RawPtr(inner, _) => {
                nref += 1;
                t = *inner;
            }
            _ => break,
        }
    }
    let (kind, path, args): (&str, Option<String>, Vec<usize>) = match t.kind() {
        ty::Adt(def, args) => (
            "adt",
            Some(path_of(tcx, def.did())),
            args.iter().filter_map(|a| a.as_type()).map(|a| ty_ix(tcx, a)).collect(),
        ),
        ty::Closure(did, _) => ("closure", Some(path_of(tcx, *did)), vec![]),
        ty::Coroutine(did, _) => ("coroutine", Some(path_of(tcx, *did)), vec![]),
        ty::CoroutineClosure(did, _) => ("coroutine_closure", Some(path_of(tcx, *did)), vec![]),
        ty::FnDef(did, args) => (
            "fndef",
            Some(path_of(tcx, *did)),
            args.iter().filter_map(|a| a.as_type()).map(|a| ty_ix(tcx, a)).collect(),
        ),
        ty::Param(_) => ("param", None, vec![]),
        ty::Slice(e) => ("slice", None, vec![ty_ix(tcx, *e)]),
        ty::Array(e, _) => ("array", None, vec![ty_ix(tcx, *e)]),
        ty::Tuple(ts) => ("tuple", None, ts.iter().map(|a| ty_ix(tcx, a)).collect()),
        ty::Str => ("str", None, vec![]),
        ty::Bool => ("bool", None, vec![]),
        ty::Char => ("char", None, vec![]),
        ty::Int(_) => ("int", None, vec![]),
        ty::Uint(_) => ("uint", None, vec![]),
        ty::Float(_) => ("float", None, vec![]),
        ty::Dynamic(..) => ("dyn", None, vec![]),
        ty::FnPtr(..) => ("fnptr", None, vec![]),
        ty::Never => ("never", None, vec![]),
        ty::Alias(..) => ("alias", None, vec![]),
        _ => ("other", None, vec![]),
    };
    let entry = J::Arr(vec![
        J::Str(s),
        J::Int(nref),
        J::s(kind),
        J::opt_s(path),
        J::Arr(args.into_iter().map(|a| J::Int(a as i128)).collect()),
    ]);
    OUT.with(|o| o.borrow_mut().types[ix] = entry);
    ix
}

fn loc(tcx: TyCtxt<'_>, span: Span) -> (String, i128) {
    let span = span.source_callsite();
    let sm = tcx.sess.source_map();
    let p = sm.lookup_char_pos(span.lo());
    let name = match &p.file.name {
        rustc_span::FileName::Real(r) => match r.local_path() {
            Some(p) => p.display().to_string(),
            None => format!("{:?}", r),
        },
        other => format!("{:?}", other),
    };
    (name, p.line as i128)
}

fn line_of(tcx: TyCtxt<'_>, span: Span) -> i128 {
    let span = span.source_callsite();
    tcx.sess.source_map().lookup_char_pos(span.lo()).line as i128
}

fn place_j<'tcx>(tcx: TyCtxt<'tcx>, body: &Body<'tcx>, place: &Place<'tcx>) -> J {
    let mut v = vec![J::Int(place.local.as_u32() as i128)];
    let mut ty = rustc_middle::mir::PlaceTy::from_ty(body.local_decls[place.local].ty);
    for elem in place.projection.iter() {
        let j = match elem {
            ProjectionElem::Deref => J::s("*"),
            ProjectionElem::Field(f, _) => {
                let name = match ty.ty.kind() {
                    ty::Adt(def, _) => {
                        let variant = match ty.variant_index {
                            Some(v) => def.variant(v),
                            None => {
                                if def.is_enum() {
                                    // field projection on an enum without downcast should not happen
                                    def.variants().iter().next().unwrap()
                                } else {
                                    def.non_enum_variant()
                                }
                            }
                        };
                        variant.fields.get(f).map(|fd| fd.name.to_string())
                    }
                    _ => None,
                };
                J::Arr(vec![J::s("f"), J::Int(f.as_u32() as i128), J::opt_s(name)])
            }
            ProjectionElem::Index(l) => J::Arr(vec![J::s("i"), J::Int(l.as_u32() as i128)]),
            ProjectionElem::Downcast(name, vi) => J::Arr(vec![
                J::s("d"),
                J::opt_s(name.map(|n| n.to_string())),
                J::Int(vi.as_u32() as i128),
            ]),
            ProjectionElem::ConstantIndex { offset, from_end, .. } => {
                J::Arr(vec![J::s("c"), J::Int(offset as i128), J::Bool(from_end)])
            }
            ProjectionElem::Subslice { from, to, from_end } => {
                J::Arr(vec![J::s("s"), J::Int(from as i128), J::Int(to as i128), J::Bool(from_end)])
            }
            _ => J::Arr(vec![J::s("o")]),
        };
        v.push(j);
        ty = ty.projection_ty(tcx, elem);
    }
    J::Arr(v)
}

fn const_j<'tcx>(tcx: TyCtxt<'tcx>, owner: DefId, c: &Const<'tcx>) -> J {
    let ty = c.ty();
    let tyi = J::Int(ty_ix(tcx, ty) as i128);
    // function items and other ZSTs
    if let ty::FnDef(did, args) = ty.kind() {
        let resolved = resolve(tcx, owner, *did, args);
        return J::Arr(vec![J::s("k"), J::s("fn"), J::s(path_of(tcx, *did)), tyi, J::opt_s(resolved)]);
    }
    match c {
        Const::Unevaluated(uv, _) => {
            let p = if uv.promoted.is_some() {
                format!("{}::{{promoted#{}}}", path_of(tcx, uv.def), uv.promoted.unwrap().as_u32())
            } else {
                path_of(tcx, uv.def)
            };
            return J::Arr(vec![J::s("k"), J::s("def"), J::s(p), tyi]);
        }
        _ => {}
    }
    let val = match c {
        Const::Val(v, _) => Some(*v),
        Const::Ty(_, ct) => {
            if let ty::ConstKind::Value(v) = ct.kind() {
                if let Some(s) = v.try_to_leaf() {
                    return scalar_int_j(s, ty, tyi);
                }
            }
            None
        }
        _ => None,
    };
    if let Some(v) = val {
        match v {
            ConstValue::Scalar(s) => {
                if let rustc_middle::mir::interpret::Scalar::Int(si) = s {
                    return scalar_int_j(si, ty, tyi);
                }
            }
            ConstValue::ZeroSized => {
                return J::Arr(vec![J::s("k"), J::s("zst"), J::s(ty_str(ty)), tyi]);
            }
            ConstValue::Slice { .. } => {
                if let ty::Ref(_, inner, _) = ty.kind() {
                    if inner.is_str() {
                        if let Some(bytes) = v.try_get_slice_bytes_for_diagnostics(tcx) {
                            let s = String::from_utf8_lossy(bytes).to_string();
                            return J::Arr(vec![J::s("k"), J::s("str"), J::Str(s), tyi]);
                        }
                    }
                }
            }
            _ => {}
        }
    }
    let shown = with_no_trimmed_paths!(format!("{}", c));
    // `str`-typed pattern constants (match on string literals) print as a quoted literal
    if shown.len() >= 2 && shown.starts_with('"') && shown.ends_with('"') {
        let inner = &shown[1..shown.len() - 1];
        let mut out = String::new();
        let mut it = inner.chars();
        while let Some(ch) = it.next() {
            if ch == '\\' {
                match it.next() {
                    Some('n') => out.push('\n'),
                    Some('t') => out.push('\t'),
                    Some('r') => out.push('\r'),
                    Some('0') => out.push('\0'),
                    Some(other) => out.push(other),
                    None => {}
                }
            } else {
                out.push(ch);
            }
        }
        return J::Arr(vec![J::s("k"), J::s("str"), J::Str(out), tyi]);
    }
    J::Arr(vec![J::s("k"), J::s("o"), J::Str(shown), tyi])
}

fn scalar_int_j<'tcx>(si: ty::ScalarInt, ty: Ty<'tcx>, tyi: J) -> J {
    let size = si.size();
    let bits = si.to_bits(size);
    match ty.kind() {
        ty::Bool => J::Arr(vec![J::s("k"), J::s("bool"), J::Bool(bits != 0), tyi]),
        ty::Char => {
            let c = char::from_u32(bits as u32).map(|c| c.to_string()).unwrap_or_default();
            J::Arr(vec![J::s("k"), J::s("char"), J::Str(c), tyi])
        }
        ty::Int(_) => {
            let v = size.sign_extend(bits);
            J::Arr(vec![J::s("k"), J::s("int"), J::Int(v), tyi])
        }
        _ => J::Arr(vec![J::s("k"), J::s("int"), J::Int(bits as i128), tyi]),
    }
}

fn operand_j<'tcx>(tcx: TyCtxt<'tcx>, body: &Body<'tcx>, owner: DefId, op: &Operand<'tcx>) -> J {
    match op {
        Operand::Copy(p) => J::Arr(vec![J::s("c"), place_j(tcx, body, p)]),
        Operand::Move(p) => J::Arr(vec![J::s("m"), place_j(tcx, body, p)]),
        Operand::Constant(c) => {
            // reference to a static item (mutable statics and thread locals are cross-call state channels)
            if let Some(rustc_middle::mir::interpret::Scalar::Ptr(ptr, _)) = c.const_.try_to_scalar() {
                if let rustc_middle::mir::interpret::GlobalAlloc::Static(sdid) =
                    tcx.global_alloc(ptr.provenance.alloc_id())
                {
                    return J::Arr(vec![
                        J::s("k"),
                        J::s("static"),
                        J::s(path_of(tcx, sdid)),
                        J::Int(ty_ix(tcx, c.const_.ty()) as i128),
                        J::Bool(tcx.is_mutable_static(sdid)),
                    ]);
                }
            }
            const_j(tcx, owner, &c.const_)
        }
        #[allow(unreachable_patterns)]
        _ => J::Arr(vec![J::s("k"), J::s("o"), J::s("?"), J::Int(0)]),
    }
}

fn resolve<'tcx>(tcx: TyCtxt<'tcx>, owner: DefId, did: DefId, args: ty::GenericArgsRef<'tcx>) -> Option<String> {
    if !matches!(tcx.def_kind(did), DefKind::Fn | DefKind::AssocFn) {
        return None;
    }
    // typing env of the body's typeck root
    let root = tcx.typeck_root_def_id(owner);
    let env = TypingEnv::post_analysis(tcx, root);
    let args = tcx.erase_and_anonymize_regions(args);
    let args = match tcx.try_normalize_erasing_regions(env, rustc_middle::ty::Unnormalized::new_wip(args)) {
        Ok(a) => a,
        Err(_) => return None,
    };
    match Instance::try_resolve(tcx, env, did, args) {
        Ok(Some(inst)) => Some(path_of(tcx, inst.def_id())),
        _ => None,
    }
}

fn rvalue_j<'tcx>(tcx: TyCtxt<'tcx>, body: &Body<'tcx>, owner: DefId, rv: &Rvalue<'tcx>) -> J {
    match rv {
        Rvalue::Use(op, ..) => J::Arr(vec![J::s("use"), operand_j(tcx, body, owner, op)]),
        Rvalue::Repeat(op, _) => J::Arr(vec![J::s("rep"), operand_j(tcx, body, owner, op)]),
        Rvalue::Ref(_, bk, p) => {
            let k = match bk {
                BorrowKind::Shared => "s",
                BorrowKind::Fake(_) => "f",
                BorrowKind::Mut { .. } => "m",
            };
            J::Arr(vec![J::s("ref"), J::s(k), place_j(tcx, body, p)])
        }
        Rvalue::ThreadLocalRef(did) => J::Arr(vec![J::s("tls"), J::s(path_of(tcx, *did))]),
        Rvalue::RawPtr(_, p) => J::Arr(vec![J::s("ptr"), place_j(tcx, body, p)]),
        Rvalue::Cast(kind, op, ty) => J::Arr(vec![
            J::s("cast"),
            J::s(format!("{:?}", kind)),
            operand_j(tcx, body, owner, op),
            J::Int(ty_ix(tcx, *ty) as i128),
        ]),
        Rvalue::BinaryOp(op, ab) => J::Arr(vec![
            J::s("bin"),
            J::s(format!("{:?}", op)),
            operand_j(tcx, body, owner, &ab.0),
            operand_j(tcx, body, owner, &ab.1),
        ]),
        Rvalue::UnaryOp(op, a) => {
            J::Arr(vec![J::s("un"), J::s(format!("{:?}", op)), operand_j(tcx, body, owner, a)])
        }
        Rvalue::Discriminant(p) => J::Arr(vec![J::s("disc"), place_j(tcx, body, p)]),
        Rvalue::Aggregate(kind, ops) => {
            let mut ext_fields: Option<Vec<J>> = None;
            let (k, path, variant): (&str, Option<String>, Option<String>) = match &**kind {
                AggregateKind::Array(_) => ("array", None, None),
                AggregateKind::Tuple => ("tuple", None, None),
                AggregateKind::Adt(did, vi, _, _, _) => {
                    let def = tcx.adt_def(*did);
                    if !did.is_local() {
                        // field names of foreign ADTs (local ones are in the item facts)
                        ext_fields = Some(def.variant(*vi).fields.iter().map(|f| J::s(f.name.to_string())).collect());
                    }
                    ("adt", Some(path_of(tcx, *did)), Some(def.variant(*vi).name.to_string()))
                }
                AggregateKind::Closure(did, _) => ("closure", Some(path_of(tcx, *did)), None),
                AggregateKind::Coroutine(did, _) => ("coroutine", Some(path_of(tcx, *did)), None),
                AggregateKind::CoroutineClosure(did, _) => ("coroutine_closure", Some(path_of(tcx, *did)), None),
                AggregateKind::RawPtr(..) => ("rawptr", None, None),
            };
            let mut v = vec![
                J::s("agg"),
                J::s(k),
                J::opt_s(path),
                J::opt_s(variant),
                J::Arr(ops.iter().map(|o| operand_j(tcx, body, owner, o)).collect()),
            ];
            if let Some(f) = ext_fields {
                v.push(J::Arr(f));
            }
            J::Arr(v)
        }
        Rvalue::CopyForDeref(p) => J::Arr(vec![J::s("cfd"), place_j(tcx, body, p)]),
        _ => J::Arr(vec![J::s("o")]),
    }
}

fn bb(b: BasicBlock) -> J {
    J::Int(b.as_u32() as i128)
}
fn unwind_j(u: &UnwindAction) -> J {
    match u {
        UnwindAction::Cleanup(b) => bb(*b),
        _ => J::Null,
    }
}

fn body_j<'tcx>(tcx: TyCtxt<'tcx>, did: DefId, id: String, kind: &str, body: &Body<'tcx>) -> J {
    let (file, line) = loc(tcx, body.span);
    let endline = {
        let sp = body.span.source_callsite();
        tcx.sess.source_map().lookup_char_pos(sp.hi()).line as i128
    };
    // debug names of locals
    let mut names: HashMap<u32, String> = HashMap::new();
    for vdi in body.var_debug_info.iter() {
        if let rustc_middle::mir::VarDebugInfoContents::Place(p) = &vdi.value {
            if p.projection.is_empty() {
                names.entry(p.local.as_u32()).or_insert_with(|| vdi.name.to_string());
            }
        }
    }
    let locals: Vec<J> = body
        .local_decls
        .iter_enumerated()
        .map(|(l, d)| {
            J::Arr(vec![J::Int(ty_ix(tcx, d.ty) as i128), J::opt_s(names.get(&l.as_u32()).cloned())])
        })
        .collect();
    let mut blocks = Vec::new();
    for (_bbi, data) in body.basic_blocks.iter_enumerated() {
        let mut stmts = Vec::new();
        for st in data.statements.iter() {
            match &st.kind {
                StatementKind::Assign(b) => {
                    let (p, rv) = &**b;
                    stmts.push(J::Arr(vec![
                        J::s("a"),
                        place_j(tcx, body, p),
                        rvalue_j(tcx, body, did, rv),
                        J::Int(line_of(tcx, st.source_info.span)),
                    ]));
                }
                StatementKind::StorageLive(l) => stmts.push(J::Arr(vec![J::s("sl"), J::Int(l.as_u32() as i128)])),
                StatementKind::StorageDead(l) => stmts.push(J::Arr(vec![J::s("sd"), J::Int(l.as_u32() as i128)])),
                StatementKind::SetDiscriminant { place, variant_index } => stmts.push(J::Arr(vec![
                    J::s("sdisc"),
                    place_j(tcx, body, place),
                    J::Int(variant_index.as_u32() as i128),
                ])),
                _ => {}
            }
        }
        let term = data.terminator();
        let tline = J::Int(line_of(tcx, term.source_info.span));
        let t = match &term.kind {
            TerminatorKind::Goto { target } => J::Arr(vec![J::s("goto"), bb(*target)]),
            TerminatorKind::SwitchInt { discr, targets } => {
                let arms: Vec<J> =
                    targets.iter().map(|(v, b)| J::Arr(vec![J::Int(v as i128), bb(b)])).collect();
                J::Arr(vec![
                    J::s("sw"),
                    operand_j(tcx, body, did, discr),
                    J::Arr(arms),
                    bb(targets.otherwise()),
                    tline,
                ])
            }
            TerminatorKind::UnwindResume => J::Arr(vec![J::s("resume")]),
            TerminatorKind::UnwindTerminate(_) => J::Arr(vec![J::s("term")]),
            TerminatorKind::Return => J::Arr(vec![J::s("ret")]),
            TerminatorKind::Unreachable => J::Arr(vec![J::s("unreach")]),
            TerminatorKind::Drop { place, target, unwind, .. } => {
                J::Arr(vec![J::s("drop"), place_j(tcx, body, place), bb(*target), unwind_j(unwind), tline])
            }
            TerminatorKind::Call { func, args, destination, target, unwind, fn_span, .. } => {
                let mut o: Vec<(&'static str, J)> = Vec::new();
                if let Some((cd, cargs)) = func.const_fn_def() {
                    o.push(("f", J::s(path_of(tcx, cd))));
                    o.push(("r", J::opt_s(resolve(tcx, did, cd, cargs))));
                    let ga: Vec<J> = cargs
                        .iter()
                        .filter_map(|a| match a.kind() {
                            GenericArgKind::Type(t) => Some(J::Int(ty_ix(tcx, t) as i128)),
                            _ => None,
                        })
                        .collect();
                    o.push(("ga", J::Arr(ga)));
                    if let Some(tr) = tcx.trait_of_assoc(cd) {
                        o.push(("tr", J::s(path_of(tcx, tr))));
                    }
                } else {
                    o.push(("f", J::Null));
                    o.push(("fo", operand_j(tcx, body, did, func)));
                }
                o.push(("a", J::Arr(args.iter().map(|a| operand_j(tcx, body, did, &a.node)).collect())));
                o.push(("d", place_j(tcx, body, destination)));
                o.push(("t", target.map(bb).unwrap_or(J::Null)));
                o.push(("u", unwind_j(unwind)));
                o.push(("l", J::Int(line_of(tcx, *fn_span))));
                o.push(("x", J::Bool(fn_span.from_expansion())));
                J::Arr(vec![J::s("call"), J::Obj(o)])
            }
            TerminatorKind::TailCall { func, args, .. } => {
                let f = func.const_fn_def().map(|(d, _)| path_of(tcx, d));
                J::Arr(vec![
                    J::s("tail"),
                    J::opt_s(f),
                    J::Arr(args.iter().map(|a| operand_j(tcx, body, did, &a.node)).collect()),
                ])
            }
            TerminatorKind::Assert { cond, expected, msg, target, unwind } => {
                let kind = {
                    let s = format!("{:?}", msg);
                    s.split(|c: char| c == '(' || c == ' ' || c == '{').next().unwrap_or("").to_string()
                };
                J::Arr(vec![
                    J::s("assert"),
                    operand_j(tcx, body, did, cond),
                    J::Bool(*expected),
                    J::s(kind),
                    bb(*target),
                    unwind_j(unwind),
                    tline,
                ])
            }
            TerminatorKind::Yield { value, resume, drop, .. } => J::Arr(vec![
                J::s("yield"),
                operand_j(tcx, body, did, value),
                bb(*resume),
                drop.map(bb).unwrap_or(J::Null),
                tline,
            ]),
            TerminatorKind::CoroutineDrop => J::Arr(vec![J::s("cdrop")]),
            TerminatorKind::FalseEdge { real_target, imaginary_target } => {
                J::Arr(vec![J::s("fe"), bb(*real_target), bb(*imaginary_target)])
            }
            TerminatorKind::FalseUnwind { real_target, unwind } => {
                J::Arr(vec![J::s("fu"), bb(*real_target), unwind_j(unwind)])
            }
            TerminatorKind::InlineAsm { .. } => J::Arr(vec![J::s("asm")]),
        };
        blocks.push(J::Arr(vec![J::Bool(data.is_cleanup), J::Arr(stmts), t]));
    }
    let parent = if tcx.is_closure_like(did) { Some(path_of(tcx, tcx.parent(did))) } else { None };
    let mut o: Vec<(&'static str, J)> = vec![
        ("k", J::s("body")),
        ("id", J::Str(id)),
        ("kind", J::s(kind)),
        ("crate", J::s(tcx.crate_name(LOCAL_CRATE).to_string())),
        ("file", J::Str(file)),
        ("line", J::Int(line)),
        ("endline", J::Int(endline)),
        ("parent", J::opt_s(parent)),
        ("argc", J::Int(body.arg_count as i128)),
        ("coroutine", J::Bool(body.coroutine.is_some())),
        ("locals", J::Arr(locals)),
        ("blocks", J::Arr(blocks)),
    ];
    // signature facts for fn-like items
    if matches!(tcx.def_kind(did), DefKind::Fn | DefKind::AssocFn) {
        let vis = tcx.visibility(did);
        let v = if vis.is_public() { "pub" } else { "restricted" };
        o.push(("vis", J::s(v)));
        o.push(("async", J::Bool(tcx.asyncness(did).is_async())));
        if let Some(imp) = tcx.impl_of_assoc(did) {
            let self_ty = tcx.type_of(imp).instantiate_identity().skip_norm_wip();
            o.push(("impl_self", J::Int(ty_ix(tcx, self_ty) as i128)));
            if let Some(tr) = tcx.impl_opt_trait_ref(imp) {
                let tr = tr.instantiate_identity().skip_norm_wip();
                o.push(("impl_trait", J::s(path_of(tcx, tr.def_id))));
                if let Some(ti) = tcx.trait_item_of(did) {
                    o.push(("trait_item", J::s(path_of(tcx, ti))));
                }
            }
        } else if let Some(tr) = tcx.trait_of_assoc(did) {
            o.push(("in_trait", J::s(path_of(tcx, tr))));
        }
    }
    J::Obj(o)
}

fn dump_owner<'tcx>(tcx: TyCtxt<'tcx>, def: LocalDefId) {
    let mut todo: Vec<LocalDefId> = vec![def];
    for n in tcx.nested_bodies_within(def) {
        todo.push(n);
    }
    for d in todo {
        let did = d.to_def_id();
        let (b, promoted) = tcx.mir_promoted(d);
        if b.is_stolen() {
            emit(J::Obj(vec![("k", J::s("stolen")), ("id", J::s(path_of(tcx, did)))]));
            continue;
        }
        let kind = match tcx.def_kind(did) {
            DefKind::Fn | DefKind::AssocFn => "fn",
            DefKind::Closure => {
                if tcx.is_coroutine(did) {
                    "coroutine"
                } else {
                    "closure"
                }
            }
            DefKind::Const { .. } | DefKind::AssocConst { .. } | DefKind::AnonConst | DefKind::InlineConst => "const",
            DefKind::Static { .. } => "static",
            _ => "other",
        };
        let id = path_of(tcx, did);
        {
            let body = b.borrow();
            emit(body_j(tcx, did, id.clone(), kind, &body));
        }
        if !promoted.is_stolen() {
            let ps = promoted.borrow();
            for (pi, pb) in ps.iter_enumerated() {
                let pid = format!("{}::{{promoted#{}}}", id, pi.as_u32());
                emit(body_j(tcx, did, pid, "promoted", pb));
            }
        }
        OUT.with(|o| o.borrow_mut().nbodies += 1);
    }
}

fn item_facts<'tcx>(tcx: TyCtxt<'tcx>) {
    let send = tcx.get_diagnostic_item(rustc_span::sym::Send);
    let sync = tcx.get_diagnostic_item(rustc_span::sym::Sync);
    let freeze = tcx.lang_items().freeze_trait();
    let implements = |ty: Ty<'tcx>, tr: Option<DefId>, owner: DefId| -> J {
        let Some(tr) = tr else { return J::Null };
        let param_env = tcx.param_env(owner);
        let infcx = tcx.infer_ctxt().build(TypingMode::non_body_analysis());
        let r = infcx.type_implements_trait(tr, [ty], param_env);
        J::Bool(r.must_apply_modulo_regions())
    };
    let crate_items = tcx.hir_crate_items(());
    for id in crate_items.definitions() {
        let did = id.to_def_id();
        match tcx.def_kind(did) {
            DefKind::Struct | DefKind::Enum | DefKind::Union => {
                let def = tcx.adt_def(did);
                let (file, line) = loc(tcx, tcx.def_span(did));
                let mut variants = Vec::new();
                for v in def.variants().iter() {
                    let mut fields = Vec::new();
                    for f in v.fields.iter() {
                        let fty = tcx.type_of(f.did).instantiate_identity().skip_norm_wip();
                        fields.push(J::Obj(vec![
                            ("name", J::s(f.name.to_string())),
                            ("ty", J::Int(ty_ix(tcx, fty) as i128)),
                            ("pub", J::Bool(f.vis.is_public())),
                            ("send", implements(fty, send, did)),
                            ("sync", implements(fty, sync, did)),
                            ("freeze", implements(fty, freeze, did)),
                        ]));
                    }
                    variants.push(J::Obj(vec![("name", J::s(v.name.to_string())), ("fields", J::Arr(fields))]));
                }
                let kind = if def.is_enum() {
                    "enum"
                } else if def.is_union() {
                    "union"
                } else {
                    "struct"
                };
                let self_ty = tcx.type_of(did).instantiate_identity().skip_norm_wip();
                emit(J::Obj(vec![
                    ("k", J::s("adt")),
                    ("path", J::s(path_of(tcx, did))),
                    ("kind", J::s(kind)),
                    ("crate", J::s(tcx.crate_name(LOCAL_CRATE).to_string())),
                    ("file", J::Str(file)),
                    ("line", J::Int(line)),
                    ("send", implements(self_ty, send, did)),
                    ("sync", implements(self_ty, sync, did)),
                    ("variants", J::Arr(variants)),
                ]));
            }
            DefKind::Impl { .. } => {
                let (file, line) = loc(tcx, tcx.def_span(did));
                let self_ty = tcx.type_of(did).instantiate_identity().skip_norm_wip();
                let tr = tcx.impl_opt_trait_ref(did).map(|t| t.instantiate_identity().skip_norm_wip());
                let mut items = Vec::new();
                for it in tcx.associated_items(did).in_definition_order() {
                    items.push(J::Arr(vec![
                        J::s(path_of(tcx, it.def_id)),
                        J::opt_s(it.trait_item_def_id().map(|t| path_of(tcx, t))),
                        J::s(format!("{:?}", tcx.def_kind(it.def_id))),
                    ]));
                }
                let is_unsafe = match tr {
                    Some(_) => tcx.impl_trait_header(did).safety.is_unsafe(),
                    None => false,
                };
                let negative = match tr {
                    Some(_) => matches!(tcx.impl_polarity(did), ty::ImplPolarity::Negative),
                    None => false,
                };
                emit(J::Obj(vec![
                    ("k", J::s("impl")),
                    ("trait", J::opt_s(tr.map(|t| path_of(tcx, t.def_id)))),
                    ("self", J::Int(ty_ix(tcx, self_ty) as i128)),
                    ("unsafe", J::Bool(is_unsafe)),
                    ("negative", J::Bool(negative)),
                    ("crate", J::s(tcx.crate_name(LOCAL_CRATE).to_string())),
                    ("file", J::Str(file)),
                    ("line", J::Int(line)),
                    ("items", J::Arr(items)),
                ]));
            }
            DefKind::Static { mutability, .. } => {
                let (file, line) = loc(tcx, tcx.def_span(did));
                let sty = tcx.type_of(did).instantiate_identity().skip_norm_wip();
                let tls = tcx.is_thread_local_static(did);
                emit(J::Obj(vec![
                    ("k", J::s("static")),
                    ("path", J::s(path_of(tcx, did))),
                    ("mut", J::Bool(mutability.is_mut())),
                    ("ty", J::Int(ty_ix(tcx, sty) as i128)),
                    ("freeze", implements(sty, freeze, did)),
                    ("tls", J::Bool(tls)),
                    ("crate", J::s(tcx.crate_name(LOCAL_CRATE).to_string())),
                    ("file", J::Str(file)),
                    ("line", J::Int(line)),
                ]));
            }
            DefKind::Trait => {
                let mut items = Vec::new();
                for it in tcx.associated_items(did).in_definition_order() {
                    items.push(J::s(path_of(tcx, it.def_id)));
                }
                emit(J::Obj(vec![
                    ("k", J::s("trait")),
                    ("path", J::s(path_of(tcx, did))),
                    ("crate", J::s(tcx.crate_name(LOCAL_CRATE).to_string())),
                    ("items", J::Arr(items)),
                ]));
            }
            _ => {}
        }
    }
}

struct Cb;

impl Callbacks for Cb {
    fn config(&mut self, config: &mut Config) {
        config.override_queries = Some(|_sess, providers: &mut Providers| {
            ORIG.with(|o| *o.borrow_mut() = Some(providers.queries.mir_borrowck));
            providers.queries.mir_borrowck = |tcx, def| {
                dump_owner(tcx, def);
                let orig = ORIG.with(|o| o.borrow().unwrap());
                orig(tcx, def)
            };
        });
    }

    fn after_analysis<'tcx>(&mut self, _compiler: &Compiler, tcx: TyCtxt<'tcx>) -> Compilation {
        let Ok(dir) = std::env::var("EMMYFACTS_OUT") else { return Compilation::Continue };
        item_facts(tcx);
        let crate_name = tcx.crate_name(LOCAL_CRATE).to_string();
        let ctype = tcx
            .crate_types()
            .first()
            .map(|c| format!("{:?}", c).to_lowercase())
            .unwrap_or_else(|| "unknown".into());
        let is_test = tcx.sess.opts.test;
        let mut text = String::new();
        OUT.with(|o| {
            let o = o.borrow();
            let mut hdr = String::new();
            J::Obj(vec![
                ("k", J::s("crate")),
                ("name", J::s(crate_name.clone())),
                ("type", J::s(ctype.clone())),
                ("test", J::Bool(is_test)),
                ("owners", J::Int(o.nbodies as i128)),
            ])
            .write(&mut hdr);
            text.push_str(&hdr);
            text.push('\n');
            let mut ts = String::new();
            J::Obj(vec![("k", J::s("types")), ("t", J::Arr(o.types.clone()))]).write(&mut ts);
            text.push_str(&ts);
            text.push('\n');
            for l in o.lines.iter() {
                text.push_str(l);
                text.push('\n');
            }
        });
        let fname = format!("{}/{}-{}{}.facts.jsonl", dir, crate_name, ctype, if is_test { "-test" } else { "" });
        // single write per process
        let tmp = format!("{}.tmp{}", fname, std::process::id());
        std::fs::write(&tmp, text).expect("write facts");
        std::fs::rename(&tmp, &fname).expect("rename facts");
        Compilation::Continue
    }
}

fn main() {
    let mut args: Vec<String> = std::env::args().collect();
    // RUSTC_WORKSPACE_WRAPPER protocol: argv[1] is the real rustc
    if args.len() > 1 && (args[1].ends_with("rustc") || args[1].contains("/rustc")) {
        args.remove(1);
    }
    rustc_driver::run_compiler(&args, &mut Cb);
}
