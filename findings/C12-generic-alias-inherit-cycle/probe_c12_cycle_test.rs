#[cfg(test)]
mod test {
    use crate::{DiagnosticCode, VirtualWorkspace};
    #[test]
    fn probe_generic_alias_inherit_cycle() {
        let mut ws = VirtualWorkspace::new();
        let file_id = ws.def(r#"
---@class CycA<T>: CycBAlias<T>
---@alias CycBAlias<T> CycB<T>
---@class CycB<T>: CycA<T>
local a ---@type CycA<string>
local v = a.missing
"#);
        ws.enable_full_diagnostic();
        let _ = ws.analysis.diagnose_file(file_id, tokio_util::sync::CancellationToken::new());
        let _ = DiagnosticCode::UndefinedField;
        let ty = ws.expr_ty("v");
        println!("{:?}", ty);
        }

    #[test]
    fn probe_generic_alias_alias_cycle() {
        let mut ws = VirtualWorkspace::new();
        let file_id = ws.def(r#"
---@alias AA<T> BB<T>
---@alias BB<T> AA<T>
local a ---@type AA<string>
local v = a.missing
"#);
        ws.enable_full_diagnostic();
        let _ = ws.analysis.diagnose_file(file_id, tokio_util::sync::CancellationToken::new());
        println!("{:?}", ws.expr_ty("v"));
    }

    #[test]
    fn probe_generic_alias_class_cycle2() {
        let mut ws = VirtualWorkspace::new();
        let file_id = ws.def(r#"
---@class P<T>: Q<T>
---@alias Q<T> R<T>
---@alias R<T> P<T>
local a ---@type P<string>
local v = a.missing
local w = a:foo()
"#);
        ws.enable_full_diagnostic();
        let _ = ws.analysis.diagnose_file(file_id, tokio_util::sync::CancellationToken::new());
        println!("{:?} {:?}", ws.expr_ty("v"), ws.expr_ty("w"));
        }

    #[test]
    fn probe_generic_alias_cycle_closure_member() {
        let mut ws = VirtualWorkspace::new();
        let file_id = ws.def(r#"
---@class CycA<T>: CycBAlias<T>
---@alias CycBAlias<T> CycB<T>
---@class CycB<T>: CycA<T>
local a ---@type CycA<string>
a.cb = function(x) return x end
function a:m(y) return y end
a.cb2(function(z) return z end)
"#);
        ws.enable_full_diagnostic();
        let _ = ws.analysis.diagnose_file(file_id, tokio_util::sync::CancellationToken::new());
    }
}
