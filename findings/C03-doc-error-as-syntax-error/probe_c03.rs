use emmylua_parser::{LuaParser, ParserConfig};
#[test]
fn malformed_annotation_is_not_a_lua_syntax_error() {
    for src in ["---@class\nlocal x = 1\n", "---@type table<string\nlocal y = 2\n", "---@field [\"a\" string\nlocal z = 3\n"] {
        let tree = LuaParser::parse(src, ParserConfig::default());
        println!("{:?} -> {:?}", src, tree.get_errors().iter().map(|e| format!("{:?}", e.kind)).collect::<Vec<_>>());
        assert!(!tree.has_syntax_errors(), "valid Lua reported with syntax errors: {:?}", src);
    }
}
