// What on_range_formatting_handler does: hand the stored tree's chunk to reformat_range_in_chunk without
// checking tree.has_syntax_errors().
use emmylua_formatter::{LuaFormatConfig, reformat_range_in_chunk};
use emmylua_parser::{LuaLanguageLevel, LuaParser, ParserConfig};
use rowan::{TextRange, TextSize};

#[test]
fn broken_document_is_not_range_formatted() {
    let text = "local x   =   1\nlocal y = = 2\n";
    let tree = LuaParser::parse(text, ParserConfig::with_level(LuaLanguageLevel::Lua54));
    assert!(tree.has_syntax_errors());
    let chunk = tree.get_chunk_node();
    let out = reformat_range_in_chunk(
        text,
        &chunk,
        TextRange::new(TextSize::new(0), TextSize::new(15)),
        &LuaFormatConfig::default(),
        LuaLanguageLevel::Lua54,
    );
    // the property: documents with syntax errors are not range-formatted
    assert!(out.is_none(), "range-formatted a document with syntax errors: {:?}", out.map(|o| o.text));
}
