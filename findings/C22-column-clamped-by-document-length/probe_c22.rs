use emmylua_parser::LineIndex;
#[test]
fn column_past_line_end_is_clamped_to_that_line() {
    let text = "ab\ncd\r\nef";
    let idx = LineIndex::parse(text);
    assert_eq!(idx.get_offset(0, 100, text).map(u32::from), Some(2));
    assert_eq!(idx.get_offset(1, 100, text).map(u32::from), Some(5));
    assert_eq!(idx.get_offset(2, 100, text).map(u32::from), Some(9));
    assert_eq!(idx.get_offset(3, 0, text), None);
    assert_eq!(idx.get_offset(1, 1, text).map(u32::from), Some(4));
    let text2 = "é1\nüü\n";
    let idx2 = LineIndex::parse(text2);
    assert_eq!(idx2.get_offset(0, 100, text2).map(u32::from), Some(3));
    assert_eq!(idx2.get_offset(1, 1, text2).map(u32::from), Some(6));
    assert_eq!(idx2.get_offset(1, 100, text2).map(u32::from), Some(8));
    assert_eq!(idx2.get_col_offset_at_line(1, 100, text2).map(u32::from), Some(4));
}
