use emmylua_parser::{LuaParser, ParserConfig};
use schema_to_emmylua::SchemaConverter;
use serde_json::{Value, json};

fn convert_and_parse(schema: &Value) -> (String, Vec<String>) {
    let result = SchemaConverter::new(false).convert(schema);
    let tree = LuaParser::parse(&result.annotation_text, ParserConfig::default());
    let errors = tree.get_errors().iter().map(|e| format!("{:?} at {:?}: {}", e.kind, e.range, e.message)).collect();
    (result.annotation_text, errors)
}

#[test]
fn probe_quote_in_property_name() {
    let (text, errors) = convert_and_parse(&json!({"title": "Config", "type": "object", "properties": {"q\"x": {"type": "string"}}}));
    println!("{text}\n{errors:?}");
    assert!(errors.is_empty());
}

#[test]
fn probe_quote_in_enum_value() {
    let (text, errors) = convert_and_parse(&json!({"title": "Config", "type": "object", "properties": {"k": {"enum": ["a\"b", "c"]}}}));
    println!("{text}\n{errors:?}");
    assert!(errors.is_empty());
}

#[test]
fn probe_additional_properties_object() {
    let (text, errors) = convert_and_parse(&json!({"title": "Config", "type": "object", "properties": {"k": {"type": "string"}}, "additionalProperties": {"type": "object", "properties": {"z": {"type": "integer"}}}}));
    println!("{text}\n{errors:?}");
    assert!(errors.is_empty());
}

#[test]
fn probe_multiline_member_description() {
    let (text, errors) = convert_and_parse(&json!({"title": "Config", "type": "object", "properties": {"k": {"$ref": "#/$defs/M"}}, "$defs": {"M": {"oneOf": [{"const": "a", "description": "line one\nlocal x = = 1"}, {"const": "b", "description": "fine"}]}}}));
    println!("{text}\n{errors:?}");
    assert!(errors.is_empty());
}
