use emmylua_parser::{LuaParser, ParserConfig};
use schema_to_emmylua::SchemaConverter;
use serde_json::{Value, json};
fn convert_and_parse(schema: &Value) -> (String, Vec<String>) {
    let result = SchemaConverter::new(false).convert(schema);
    let tree = LuaParser::parse(&result.annotation_text, ParserConfig::default());
    let errors = tree.get_errors().iter().map(|e| format!("{:?} at {:?}: {}", e.kind, e.range, e.message)).collect();
    (result.annotation_text, errors)
}
#[test]
fn probe_lone_cr_in_description() {
    let (text, errors) = convert_and_parse(&json!({"title": "Config", "description": "first\rlocal = = 1", "type": "object", "properties": {"k": {"type": "string", "description": "one\rlocal = = 2"}}}));
    println!("{text:?}\n{errors:?}");
    assert!(errors.is_empty());
}
