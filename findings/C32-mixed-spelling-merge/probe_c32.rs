use emmylua_code_analysis::load_configs;
use serde_json::json;
#[test]
fn later_config_wins_whatever_the_spelling() {
    // flat first, nested later
    let c = load_configs(vec![], Some(vec![json!({"diagnostics.enable": false}), json!({"diagnostics": {"enable": true}})]));
    assert!(c.diagnostics.enable, "nested spelling in the later config must win");
    // nested first, flat later
    let c = load_configs(vec![], Some(vec![json!({"diagnostics": {"enable": false}}), json!({"diagnostics.enable": true})]));
    assert!(c.diagnostics.enable, "flat spelling in the later config must win");
    // later false
    let c = load_configs(vec![], Some(vec![json!({"diagnostics.enable": true}), json!({"diagnostics": {"enable": false}})]));
    assert!(!c.diagnostics.enable, "later nested false must win over earlier flat true");
}
