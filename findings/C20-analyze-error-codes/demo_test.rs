#[cfg(test)]
mod test {
    use crate::{DiagnosticCode, VirtualWorkspace};

    #[test]
    fn break_outside_loop_reported_when_only_syntax_error_enabled() {
        let mut ws = VirtualWorkspace::new();
        // only `syntax-error` enabled, every other code disabled
        assert!(!ws.has_no_diagnostic(DiagnosticCode::SyntaxError, "break"));
    }
}
