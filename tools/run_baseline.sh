#!/bin/bash
# Runs the repository's pinned test suite (guard OFF, no verification flags) and compares with BASELINE.json.
set -u
cd /repo
export CARGO_NET_OFFLINE=true
cargo nextest run --workspace --no-fail-fast --tool-config-file pb:/w/lib/nextest.toml --profile pb --test-threads 8 --offline > /tmp/baseline_run.log 2>&1
rc=$?
tail -5 /tmp/baseline_run.log
J=$(find /repo/target/nextest/pb -name junit.xml | head -1)
python3 - "$J" <<'PY'
import sys, json, re
import xml.etree.ElementTree as ET
base = json.load(open('/root/.vp/BASELINE.json'))
want = set(base['stable_pass'])
t = ET.parse(sys.argv[1])
passed = set()
failed = []
for tc in t.iter('testcase'):
    cls = tc.get('classname'); name = tc.get('name')
    ok = tc.find('failure') is None and tc.find('error') is None
    full = "%s::%s" % (cls.replace('::', '::', 1), name) if cls else name
    (passed.add if ok else failed.append)(full)
# baseline names are "<crate>::<test path>"
def norm(s): return s.replace('$', '::')
p2 = {norm(x) for x in passed}
missing = [w for w in want if w not in p2 and not any(x.endswith(w.split('::',1)[1]) for x in p2)]
print("junit passed=%d failed=%d baseline_stable=%d missing_from_pass=%d" % (len(passed), len(failed), len(want), len(missing)))
for m in missing[:20]: print("  MISSING", m)
for f in failed[:20]: print("  FAILED", f)
sys.exit(1 if (missing or failed) else 0)
PY
