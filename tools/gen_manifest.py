#!/usr/bin/env python3
"""Generates /verif/MANIFEST.json from rules/registry.py so that the manifest is always valid and current."""
import json, os, sys
VERIF = os.path.dirname(os.path.dirname(os.path.abspath(__file__)))
sys.path.insert(0, VERIF)
from rules import registry

checks = []
for pid in sorted(registry.PROPS):
    s = registry.PROPS[pid]
    checks.append({
        "property_id": pid,
        "quick_cmd": "./vcheck %s --quick" % pid,
        "thorough_cmd": "./vcheck %s --thorough" % pid,
        "evidence_file": "/verif/evidence/%s.json" % pid,
        "replay_cmd_template": "./vcheck %s --quick --replay {path}" % pid,
        "engine": s.get("engine", "emmyfacts+rules"),
        "level_claimed": {"category": s["level"], "text": s["text"], "design_ref": "DESIGN.md section 5, " + pid},
        "level_note": s["note"],
        "technique": s["technique"],
    })
na = [{"property_id": k, "reason": v} for k, v in sorted(registry.NOT_APPLICABLE.items())]
claimed = set(registry.PROPS)
allp = [json.loads(l)["id"] for l in open(os.path.join(VERIF, "properties.jsonl"))]
for p in allp:
    if p not in claimed and p not in registry.NOT_APPLICABLE:
        na.append({"property_id": p, "reason": registry.PENDING.get(p, "check not built yet in this round; see DESIGN.md section 5 for the planned static clause")})
na.sort(key=lambda x: x["property_id"])
m = {
    "version": 1,
    "setup_cmd": "./setup.sh",
    "hooks": {
        "guard": "emmyluals_emmylua_analyzer_rust_verif",
        "enable": "none needed: the checks are static (facts are extracted by a rustc_private driver from the unmodified sources); no cfg-guarded hook exists in /repo",
        "baseline_off_cmd": "./tools/run_baseline.sh",
        "source_commits": [],
        "add_only": True,
    },
    "engines": [
        {"name": "emmyfacts", "path": "/verif/emmyfacts", "serves_properties": sorted(claimed),
         "kind_free_text": "rustc_private driver (nightly) run as RUSTC_WORKSPACE_WRAPPER under cargo check: MIR-lite of every body at mir_promoted + item facts (ADTs, impls, auto-trait results) as JSON lines"},
        {"name": "rules", "path": "/verif/rules", "serves_properties": sorted(claimed),
         "kind_free_text": "Python rule library over the facts: CFG dominance / must-pass-through, write-set and taint dataflow, provenance, bounds facts, typestate, call-graph reachability, table agreement; the thorough tier additionally replays the seeded changes of /verif/seeded against the check (private copy of the tree) and fails if one it used to report is no longer reported"},
    ],
    "checks": checks,
    "not_applicable": na,
    "notes": "Static analysis only; every check decides a structural clause of its property from the current /repo sources (see level_note for what is and is not decided). quick = the rule on the current tree; thorough = the same rule plus the sensitivity replay of the seeded changes recorded as caught by that check. Known genuine defects are listed in /verif/known_findings.json.",
}
with open(os.path.join(VERIF, "MANIFEST.json"), "w") as fh:
    json.dump(m, fh, indent=1)
    fh.write("\n")
print("MANIFEST.json: %d checks, %d not applicable" % (len(checks), len(na)))
