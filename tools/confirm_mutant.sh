#!/bin/bash
# usage: confirm_mutant.sh <dir with patch.diff demo.diff> <worktree> "<demo test cmd>" "<suite cmd>" [props...]
# Confirms in a scratch worktree: demo passes on clean tree, fails with the patch, suite passes with the patch;
# then runs the given property checks against the mutated tree (without the demo) and reports which fire.
set -u
M=$1; WT=$2; DEMO=$3; SUITE=$4; shift 4
export CARGO_NET_OFFLINE=true CARGO_TARGET_DIR=$WT/target
cd $WT || exit 2
git checkout -q -- . ; git clean -fdq -e target
echo "== clean + demo"; git apply $M/demo.diff || { echo "DEMO-APPLY-FAILED"; exit 2; }
bash -c "$DEMO" > $M/confirm_demo_clean.log 2>&1; echo "demo on clean tree: rc=$?"
echo "== mutant + demo"; git apply $M/patch.diff || { echo "PATCH-APPLY-FAILED"; exit 2; }
bash -c "$DEMO" > $M/confirm_demo_mutant.log 2>&1; echo "demo on mutated tree: rc=$?"
echo "== mutant suite"; git checkout -q -- . ; git clean -fdq -e target; git apply $M/patch.diff
bash -c "$SUITE" > $M/confirm_suite_mutant.log 2>&1; echo "suite on mutated tree: rc=$?"; tail -3 $M/confirm_suite_mutant.log
echo "== checks on mutated tree"
for p in "$@"; do
  (cd /verif && VERIF_REPO=$WT ./vcheck $p --quick > $M/confirm_check_$p.log 2>&1; echo "check $p rc=$? $(grep -c '^VIOLATION' $M/confirm_check_$p.log) violations")
done
git checkout -q -- . ; git clean -fdq -e target
