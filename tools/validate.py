#!/opt/veriftools/pyvenv/bin/python
"""validate MANIFEST.json and every evidence file against the harness schemas"""
import json, sys, glob, jsonschema
ok = True
try:
    jsonschema.validate(json.load(open('/verif/MANIFEST.json')), json.load(open('/root/.vp/MANIFEST.schema.json')))
    print("MANIFEST ok")
except Exception as e:
    ok = False; print("MANIFEST INVALID", str(e)[:400])
sch = json.load(open('/root/.vp/EVIDENCE.schema.json'))
for f in sorted(glob.glob('/verif/evidence/*.json')):
    try:
        jsonschema.validate(json.load(open(f)), sch)
    except Exception as e:
        ok = False; print("EVIDENCE INVALID", f, str(e)[:400])
print("evidence files:", len(glob.glob('/verif/evidence/*.json')))
sys.exit(0 if ok else 1)
