#!/usr/bin/env python3
"""store a confirmed mutant under /verif/seeded/<name>/ : store_seeded.py <src dir> <name> <property> <detected_by|-> <needs...>"""
import json, os, shutil, sys, re
src, name, prop, det = sys.argv[1:5]
needs = " ".join(sys.argv[5:])
dst = os.path.join("/verif/seeded", name)
os.makedirs(dst, exist_ok=True)
for f in ("patch.diff", "demo.diff", "README.md"):
    shutil.copy(os.path.join(src, f), os.path.join(dst, f))
log = open(os.path.join(src, "confirm.log")).read() if os.path.exists(os.path.join(src, "confirm.log")) else ""
checks = dict(re.findall(r"check (C\d+) rc=(\d)", log))
fails = []
sl = os.path.join(src, "confirm_suite_mutant.log")
if os.path.exists(sl):
    fails = sorted(set(re.findall(r"^\s+(?:TRY \d+ )?FAIL \[[^\]]*\] \(?[^)]*\)?\s*(\S+ \S+)", open(sl).read(), re.M)))
LOAD = ("performance_tests::", "test_issue_1100", "compilation::test::flow::")
meta = {
    "breaks_property": prop,
    "needs_to_manifest": needs,
    "confirmed": {
        "demo_on_clean_tree": "pass" if "demo on clean tree: rc=0" in log else "see confirm log",
        "demo_on_mutated_tree": "fail" if re.search(r"demo on mutated tree: rc=[1-9]", log) else "see confirm log",
        "suite_on_mutated_tree": re.search(r"suite on mutated tree: rc=(\d+)", log).group(1) if re.search(r"suite on mutated tree: rc=(\d+)", log) else "?",
        "ran": "tools/confirm_mutant.sh in a scratch worktree (git apply demo.diff; run demo; git apply patch.diff; run demo; run crate suite; VERIF_REPO=<worktree> ./vcheck <props> --quick)",
    },
    "suite_failures_on_mutated_tree": [{"test": f, "load_sensitive_wall_clock_test": any(x in f for x in LOAD)} for f in fails],
    "suite_note": "wall-clock tests (format_diff::performance_tests benchmarks with a 10 ms bound, #[timeout(5000)] flow tests) fail on the clean tree too while other jobs load the machine; they are not counted as suite failures" if fails else "",
    "checks_at_confirmation": {k: ("fires" if v == "1" else "silent") for k, v in checks.items()},
    "detected_by": None if det == "-" else det,
}
json.dump(meta, open(os.path.join(dst, "meta.json"), "w"), indent=1)
if log:
    open(os.path.join(dst, "confirm.log"), "w").write(log)
print(dst, meta["checks_at_confirmation"], meta["detected_by"])
