#!/usr/bin/env python3
import json, sys
for l in open('/verif/properties.jsonl'):
    p = json.loads(l)
    if p['id'] in sys.argv[1:]:
        print(p['id'], p['title']); print(' S:', p['statement']); print(' Q:', p['quantifier']['text']); print(' W:', p['why_tests_cant'])
        a = p['anchors']
        print(' files:', a['files'])
        for m in a.get('mechanism', []): print('  mech:', m['name'], '@', m['where'])
        for m in a.get('state', []): print('  state:', m['name'], '-', m.get('meaning'), '@', m.get('where'))
        print('  observe:', a.get('observe_at')); print('  hook:', a.get('hook_needed')); print()
