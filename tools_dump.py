#!/usr/bin/env python3
"""debug helper: dump a MIR-lite body.  usage: tools_dump.py <substring of id> [crate]"""
import sys, os
sys.path.insert(0, os.path.join(os.path.dirname(os.path.abspath(__file__)), "lib"))
import facts
d, h, n = facts.ensure_facts()
crates = sys.argv[2:] or None
F = facts.Facts(d, crates)
for bid, b in F.bodies.items():
    if sys.argv[1] in bid and (len(sys.argv[1]) < 200):
        if '--exact' in sys.argv and bid != sys.argv[1]: continue
        print("==", bid, b.kind, b.loc(), "argc", b.argc)
        for i, l in enumerate(b.locals):
            print("   _%d: %s %s" % (i, b.ty_str(l[0]), l[1] or ""))
        for i, bl in enumerate(b.blocks):
            print(" bb%d%s" % (i, " (cleanup)" if bl[0] else ""))
            for s in bl[1]:
                if s[0] in ("sl", "sd"): continue
                print("     ", s)
            print("      T", bl[2])
